import sys, json
base = json.load(open('/root/.vp/BASELINE.json'))
stable = set(base['stable_pass'])
res = {}
for l in open(sys.argv[1], errors='replace'):
    try: e = json.loads(l)
    except Exception: continue
    if e.get('Test') and e.get('Action') in ('pass', 'fail', 'skip'):
        res[e['Package'] + '::' + e['Test']] = e['Action']
passed = {k for k, v in res.items() if v == 'pass'}
failed = {k for k, v in res.items() if v == 'fail'}
print('tests run', len(res), 'pass', len(passed), 'fail', len(failed))
print('stable_pass missing or failing:', sorted(stable - passed))
print('failing:', sorted(failed))
