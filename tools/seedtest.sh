#!/bin/bash
# seedtest.sh [filter] : every kept seeded change (seeded/<name>/patch.diff) is applied to a scratch copy of a
# snapshot of /repo's HEAD (taken once at start, together with a private copy of the verifier binary, so that
# work on /repo and /verif/govc can go on meanwhile); the check named in seeded/expect.tsv must report a
# VIOLATION there.  Prints one line per seed.  SEEDTEST_JOBS (default 3) seeds run in parallel.
cd /verif
FILTER="${1:-}"
SNAP=$(mktemp -d /tmp/seedsnap.XXXXXX)
mkdir -p "$SNAP/repo" "$SNAP/verif"
git -C /repo archive HEAD | tar -x -C "$SNAP/repo"
cp /verif/bin/govc "$SNAP/govc"
cp -r /verif/trusted /verif/baseline /verif/known_findings.jsonl "$SNAP/verif/"
one() {
  name="$1"; prop="$2"; SNAP="$3"
  D=$(mktemp -d /tmp/seedtest.XXXXXX)
  cp -r "$SNAP/repo/." "$D/"
  if ! (cd "$D" && patch -p1 -s < /verif/seeded/$name/patch.diff); then echo "SEEDTEST-ERROR $name does not apply"; rm -rf "$D"; return; fi
  out=$(GOFLAGS=-mod=mod GOPROXY=off GOSUMDB=off GOTOOLCHAIN=local GOVC_TRUSTED_DIR=$SNAP/verif/trusted GOVC_BASELINE_DIR=$SNAP/verif/baseline GOVC_KNOWN_FINDINGS=$SNAP/verif/known_findings.jsonl "$SNAP/govc" check "$prop" --repo "$D" --verif "$D.out" 2>&1)
  if echo "$out" | grep -q "^VIOLATION"; then
    conf=$(echo "$out" | grep "^VIOLATION" | grep -vc "no-failing-input-found")
    echo "caught   $name [$prop] violations=$(echo "$out" | grep -c '^VIOLATION') confirmed-by-replay=$conf"
  else
    echo "MISSED   $name [$prop] $(echo "$out" | tail -1 | cut -c1-160)"
  fi
  rm -rf "$D" "$D.out"
}
export -f one
grep -v '^$' seeded/expect.tsv | { [ -n "$FILTER" ] && grep -- "$FILTER" || cat; } | tr '\t' ' ' | xargs -P "${SEEDTEST_JOBS:-3}" -L 1 bash -c 'one "$0" "$1" "'"$SNAP"'"' > "$SNAP/log" 2>&1
cat "$SNAP/log"
caught=$(grep -c '^caught' "$SNAP/log"); missed=$(grep -vc '^caught' "$SNAP/log")
echo "seedtest: $caught caught, $missed missed or in error"
rm -rf "$SNAP"
[ "$missed" -eq 0 ]
