#!/bin/bash
# selftest.sh [filter] : must-fail corpus. Every patch in selftest/must_fail is applied (revert_* in reverse) to a scratch
# copy of a snapshot of /repo's HEAD (taken once at start together with a private copy of the verifier binary, the
# trusted contracts, baselines and known findings, so that work can go on meanwhile); the named property check must
# report a VIOLATION there with the expected obligation.  Prints one line per mutant.  SELFTEST_JOBS (default 3) in parallel.
# expectations: selftest/expect.tsv  (patch-file <TAB> property <TAB> substring expected among FAILED/REGRESSED lines)
cd /verif
FILTER="${1:-}"
SNAP=$(mktemp -d /tmp/selfsnap.XXXXXX)
mkdir -p "$SNAP/repo" "$SNAP/verif"
git -C /repo archive HEAD | tar -x -C "$SNAP/repo"
cp /verif/bin/govc "$SNAP/govc"
cp -r /verif/trusted /verif/baseline /verif/known_findings.jsonl "$SNAP/verif/"
one() {
  patch="$1"; prop="$2"; SNAP="$3"; shift 3; expect="$*"
  D=$(mktemp -d /tmp/selftest.XXXXXX)
  cp -r "$SNAP/repo/." "$D/"
  if [[ "$patch" == revert_* ]]; then (cd "$D" && patch -R -p1 -s < /verif/selftest/must_fail/$patch) ; else (cd "$D" && patch -p1 -s < /verif/selftest/must_fail/$patch); fi
  if [ $? -ne 0 ]; then echo "SELFTEST-ERROR $patch does not apply"; rm -rf "$D"; return; fi
  out=$(GOFLAGS=-mod=mod GOPROXY=off GOSUMDB=off GOTOOLCHAIN=local GOVC_TRUSTED_DIR=$SNAP/verif/trusted GOVC_BASELINE_DIR=$SNAP/verif/baseline GOVC_KNOWN_FINDINGS=$SNAP/verif/known_findings.jsonl "$SNAP/govc" check "$prop" --repo "$D" --verif "$D.out" 2>&1)
  if echo "$out" | grep -q "^VIOLATION" && echo "$out" | grep -E "^(FAILED|REGRESSED|load:|  .*undefined)" | grep -qF "$expect"; then
    echo "caught   $patch [$prop] $expect"
  else
    echo "MISSED   $patch [$prop] expected: $expect :: $(echo "$out" | grep -E "^(FAILED|REGRESSED|VIOLATION|property|load)" | head -3 | cut -c1-160 | tr '\n' '|')"
  fi
  rm -rf "$D" "$D.out"
}
export -f one
grep -v '^#' selftest/expect.tsv | grep -v '^$' | { [ -n "$FILTER" ] && grep -- "$FILTER" || cat; } | tr '\t' ' ' | xargs -P "${SELFTEST_JOBS:-3}" -L 1 bash -c 'one "$0" "$1" "'"$SNAP"'" "${@:2}"' > "$SNAP/log" 2>&1
cat "$SNAP/log"
caught=$(grep -c '^caught' "$SNAP/log"); missed=$(grep -vc '^caught' "$SNAP/log")
echo "selftest: $caught caught, $missed missed or in error"
rm -rf "$SNAP"
[ "$missed" -eq 0 ]
