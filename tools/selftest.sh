#!/bin/bash
# selftest.sh [filter] : must-fail corpus. Every patch in selftest/must_fail is applied (revert_* in reverse) to a scratch
# copy of /repo; the named property check must report a VIOLATION there. Prints one line per mutant.
# expectations: selftest/expect.tsv  (patch-file <TAB> property <TAB> substring expected among FAILED/REGRESSED lines)
cd /verif
FILTER="${1:-}"
pass=0; fail=0
while IFS=$'\t' read -r patch prop expect; do
  [ -z "$patch" ] && continue
  case "$patch" in \#*) continue;; esac
  [ -n "$FILTER" ] && [[ "$patch" != *$FILTER* ]] && continue
  D=$(mktemp -d /tmp/selftest.XXXXXX)
  cp -r /repo/. "$D/" && rm -rf "$D/.git"
  if [[ "$patch" == revert_* ]]; then (cd "$D" && patch -R -p1 -s < /verif/selftest/must_fail/$patch) ; else (cd "$D" && patch -p1 -s < /verif/selftest/must_fail/$patch); fi
  if [ $? -ne 0 ]; then echo "SELFTEST-ERROR $patch does not apply"; fail=$((fail+1)); rm -rf "$D"; continue; fi
  out=$(GOVC_TRUSTED_DIR=/verif/trusted GOVC_BASELINE_DIR=/verif/baseline GOVC_KNOWN_FINDINGS=/verif/known_findings.jsonl /verif/bin/govc check "$prop" --repo "$D" --verif "$D.out" 2>&1)
  if echo "$out" | grep -q "^VIOLATION" && echo "$out" | grep -E "^(FAILED|REGRESSED|load:|  .*undefined)" | grep -qF "$expect"; then
    echo "caught   $patch [$prop] $expect"; pass=$((pass+1))
  else
    echo "MISSED   $patch [$prop] expected: $expect"; echo "$out" | grep -E "^(FAILED|REGRESSED|VIOLATION|property|load)" | head -5 | cut -c1-200; fail=$((fail+1))
  fi
  rm -rf "$D" "$D.out"
done < selftest/expect.tsv
echo "selftest: $pass caught, $fail missed"
[ $fail -eq 0 ]
