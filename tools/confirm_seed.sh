#!/bin/bash
# confirm_seed.sh <worktree> <pkgdir> <demo_test.go> <TestRegex> : demo must FAIL with patch and PASS without
export GOFLAGS=-mod=mod GOPROXY=off GOSUMDB=off GOTOOLCHAIN=local
WT="$1"; PKG="$2"; DEMO="$3"; RX="$4"
cd "$WT" || exit 2
git checkout -q -- . 2>/dev/null
git apply SEED/patch.diff || { echo "patch does not apply"; exit 2; }
go build ./... || { echo "BUILD FAILS with patch"; exit 2; }
cp "$DEMO" "$PKG/zz_seed_demo_test.go"
echo "== with patch (expect FAIL)"; go test -vet=off -count=1 -timeout 300s -run "$RX" "./$PKG/" 2>&1 | grep -v "level=" | tail -4
echo "== existing tests of package with patch (expect ok)"; rm "$PKG/zz_seed_demo_test.go"; go test -vet=off -count=1 -timeout 600s "./$PKG/" 2>&1 | grep -v "level=" | tail -2
git apply -R SEED/patch.diff
cp "$DEMO" "$PKG/zz_seed_demo_test.go"
echo "== without patch (expect PASS)"; go test -vet=off -count=1 -timeout 300s -run "$RX" "./$PKG/" 2>&1 | grep -v "level=" | tail -3
rm "$PKG/zz_seed_demo_test.go"
