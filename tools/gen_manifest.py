#!/usr/bin/env python3
"""Regenerates /verif/MANIFEST.json from the table below (single source of truth for claimed checks)."""
import json, subprocess, os

V = "/verif"
BASE = json.load(open("/root/.vp/BASELINE.json"))

# property -> (category, level text, level note, design ref)
CLAIMED = {}
NOT_APPLICABLE = {}

def claim(pid, cat, text, note, ref):
    CLAIMED[pid] = (cat, text, note, ref)

def na(pid, reason):
    NOT_APPLICABLE[pid] = reason

exec(open(os.path.join(V, "tools", "claims.py")).read())

hooks_commits = subprocess.run(["git", "-C", "/repo", "log", "--format=%H %s"], capture_output=True, text=True).stdout.strip().split("\n")
hook_shas = [l.split()[0] for l in hooks_commits if " verif:" in l or "verif hook" in l]

checks = []
for pid in sorted(CLAIMED):
    cat, text, note, ref = CLAIMED[pid]
    checks.append({
        "property_id": pid,
        "quick_cmd": "./check %s --tier quick" % pid,
        "thorough_cmd": "./check %s --tier thorough" % pid,
        "evidence_file": "/verif/evidence/%s.json" % pid,
        "replay_cmd_template": "./check %s --replay {path}" % pid,
        "engine": "govc",
        "level_claimed": {"category": cat, "text": text, "design_ref": ref},
        "level_note": note,
        "technique": "contract-based deductive verification: weakest-precondition style VCs generated from go/ssa of the real code, contracts in //@ comment files, discharged by z3/z3-new/cvc5" + (
            "; for what no contract reaches (bytes.Buffer / encoding/binary reflection, the DNS library's wire format, the path-dependent negotiation) closed `fact` clauses labelled bounded_ are decided by running the real code over the finite domain written in the clause (go test via overlay, nothing written to /repo): reported as bounded, never assumed by a proof, never counted as proved" if pid in ("C09", "C10", "C11") else ""),
    })

m = {
    "version": 1,
    "setup_cmd": "export GOFLAGS=-mod=mod GOPROXY=off GOSUMDB=off GOTOOLCHAIN=local; mkdir -p /verif/bin && cd /verif/govc && go build -o /verif/bin/govc .",
    "hooks": {
        "guard": "verif",
        "enable": "go build -tags verif ./...  (the tag only adds comment-only files zz_verif_contracts.go; the compiled program is identical)",
        "baseline_off_cmd": BASE["cmd"],
        "source_commits": hook_shas,
        "add_only": True,
    },
    "engines": [{
        "name": "govc",
        "path": "/verif/govc",
        "serves_properties": sorted(CLAIMED),
        "kind_free_text": "own VC generator: loads /repo with go/packages (-tags verif), builds go/ssa, symbolic execution to passive form with loop cuts at invariants, modular calls by contract, SMT-LIB2 queries raced on z3 5.1.0 / z3 4.8.12 / cvc5 1.0",
    }],
    "checks": checks,
    "not_applicable": [{"property_id": p, "reason": r} for p, r in sorted(NOT_APPLICABLE.items())],
    "notes": "See DESIGN.md. Every check reloads /repo's working tree; contracts live in /repo/**/zz_verif_contracts.go (build tag verif) and /verif/trusted/*.spec (assumed library contracts).",
}
json.dump(m, open(os.path.join(V, "MANIFEST.json"), "w"), indent=1)
print("claimed:", sorted(CLAIMED), "n/a:", sorted(NOT_APPLICABLE))
