#!/usr/bin/env python3
"""go2spec.py file.go BEGIN END : turn the top-level declarations between the two marker comments of a Go file into
`//@ go` helper declarations for a zz_verif_contracts.go file (one `//@ go` per declaration)."""
import sys,re
src=open(sys.argv[1]).read()
a=src.index('// '+sys.argv[2]+'\n')+len(sys.argv[2])+4
b=src.index('// '+sys.argv[3]+'\n')
KW={"property","requires","ensures","modifies","pure","safe","loop","assume","trusted","alloc_bound","holds","spawned","terminates","alias","callsite","stable","freevars","deterministic","implements","import","ghost","pred","const","lemma","pkginv","fact","immutable","func","extern","iface","go","nonnil-dynamic"}
out=[]
top=True
for ln in src[a:b].split('\n'):
    if not ln.strip():
        continue
    if ln.startswith('//'):
        out.append(ln)
        continue
    if re.match(r'^(func|var|type|const)\b',ln):
        out.append('//@ go '+ln)
    else:
        w=ln.strip().split()[0] if ln.strip() else ''
        w=re.split(r'[^A-Za-z_-]',w)[0]
        if w in KW and not ln[0] in " \t":
            sys.exit("body line starts with a contract keyword: "+ln)
        if ' // ' in ln:
            sys.exit("trailing comment would be cut: "+ln)
        out.append('//@ '+ln.replace('\t','   '))
print('\n'.join(out))
