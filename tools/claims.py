# Claimed checks and not-applicable properties (exec'd by gen_manifest.py).
UC = "check under construction in this session: contracts for this property are not yet written; until they are, nothing is claimed (see DESIGN.md section 6 for the plan)"

claim("C19", "proof",
      "Per-wrapper data-structure contracts with a ghost call counter G_closes(inner): every Close/Closed/New* of the Safe*/Named*/ReadWriteCloser/Websocket wrappers and LogClose/TryClose is verified for all states: a closed wrapper's Close is a no-op returning nil, an open wrapper's Close invokes the inner Close exactly once unless the inner reports closed, Closed() mirrors the flag. 'Exactly once at any depth' follows by induction over nesting depth from these modular contracts.",
      "Trusted: interface contract of io.Closer.Close / streams.Closed.Closed (trusted/closers.spec) incl. the acyclic-wrapping frame assumption; sequential execution (concurrent double close not covered); String() of named wrappers not covered.",
      "DESIGN.md section 6 C19")

for p in ["C01","C02","C03","C04","C05","C06","C07","C08","C09","C10","C11","C12","C13","C14","C15","C16","C17","C18"]:
    na(p, UC)
