#!/bin/bash
# smtq.sh <file.smt2> <term>... : re-run z3-new on a VC and print values of extra terms (debug aid)
f="$1"; shift
t=$(mktemp /tmp/smtq.XXXX.smt2)
grep -v "^(get-value" "$f" > $t
echo "(get-value ($*))" >> $t
z3-new -T:20 -smt2 $t | head -40
rm -f $t
