#!/usr/bin/env python3
"""Generate zero-annotation `safe` contracts for every function of every package in a scratch copy of the repo
(engine shake-out only; never used on /repo itself)."""
import os, re, sys
root = sys.argv[1]
prop = sys.argv[2] if len(sys.argv) > 2 else "SWEEP"
for d, _, files in os.walk(os.path.join(root, "internal")):
    gos = [f for f in files if f.endswith(".go") and not f.endswith("_test.go") and not f.startswith("zz_verif")]
    if not gos: continue
    pkg = None
    entries = []
    for f in sorted(gos):
        src = open(os.path.join(d, f)).read()
        m = re.search(r'^package (\w+)', src, re.M)
        pkg = m.group(1)
        for m in re.finditer(r'^func (\([^)]*\) )?(\w+)\(', src, re.M):
            recv, name = m.group(1), m.group(2)
            if name == "init": continue
            entries.append("//@ func %s%s\n//@   property %s\n//@   safe\n" % (recv or "", name, prop))
    with open(os.path.join(d, "zz_verif_contracts.go"), "w") as out:
        out.write("//go:build verif\n\npackage %s\n\n%s" % (pkg, "\n".join(entries)))
