#!/bin/bash
# update_baseline.sh <PROP>... : record the obligations discharged on the current (unchanged, committed) /repo tree
for p in "$@"; do /verif/bin/govc check $p --tier quick --repo /repo --verif /verif --update-baseline | tail -1; done
