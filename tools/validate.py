#!/usr/bin/env python3-vt
import json, jsonschema, glob, sys
jsonschema.validate(json.load(open('/verif/MANIFEST.json')), json.load(open('/root/.vp/MANIFEST.schema.json')))
print('manifest ok')
sch = json.load(open('/root/.vp/EVIDENCE.schema.json'))
for f in sorted(glob.glob('/verif/evidence/*.json')):
    jsonschema.validate(json.load(open(f)), sch)
    print('evidence ok', f)
