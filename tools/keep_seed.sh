#!/bin/bash
# keep_seed.sh <worktree> <name> <caught-by text> : copy SEED/ to /verif/seeded/<name>, annotate meta.json, remove the worktree
WT="$1"; NAME="$2"; CAUGHT="$3"
mkdir -p /verif/seeded/$NAME && cp -r "$WT"/SEED/. /verif/seeded/$NAME/
python3 - "$NAME" "$CAUGHT" <<'PY'
import json,sys
p='/verif/seeded/%s/meta.json'%sys.argv[1]
try: m=json.load(open(p))
except Exception: m={}
m['confirmed_by_me']="tools/confirm_seed.sh: demo fails with patch, passes without; package tests pass with patch; go build ok"
m['checks_result']=sys.argv[2]
json.dump(m,open(p,'w'),indent=1)
PY
git -C /repo worktree remove --force "$WT"
