#!/bin/bash
# Runs the repository's own test suite (guard off) on a copy of /repo's committed HEAD and compares with BASELINE.json.
export GOFLAGS=-mod=mod GOPROXY=off GOSUMDB=off GOTOOLCHAIN=local
SRC="${1:-/repo}"
D=$(mktemp -d /tmp/baseline.XXXXXX)
git -C "$SRC" archive HEAD | tar -x -C "$D"
cd "$D" && go test -mod=mod -json -vet=off -count=1 -timeout 40m ./... > "$D/out.json" 2>/dev/null
python3 /verif/tools/summarize_tests.py "$D/out.json"
rm -rf "$D"
