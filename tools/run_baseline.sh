#!/bin/bash
# Runs the repository's own test suite (guard off) and prints pass/fail counts.
export GOFLAGS=-mod=mod GOPROXY=off GOSUMDB=off GOTOOLCHAIN=local
cd "${1:-/repo}" && go test -mod=mod -json -vet=off -count=1 -timeout 25m ./... 2>&1 | python3 -c "
import sys, json
p=f=0; failed=[]
for l in sys.stdin:
    try: e=json.loads(l)
    except: continue
    if e.get('Test') and e.get('Action') in ('pass','fail'):
        if e['Action']=='pass': p+=1
        else: f+=1; failed.append(e['Package'].split('/')[-1]+'::'+e['Test'])
print('pass',p,'fail',f, failed)
"
