#!/bin/bash
# mut.sh <PROP> <file-relative-to-repo> <python-expr old> <new>  : apply a textual mutation on a scratch copy and run the check
PROP="$1"; FILE="$2"; OLD="$3"; NEW="$4"
D=$(mktemp -d /tmp/mut.XXXXXX)
cp -r /repo/. "$D/"
python3 - "$D/$FILE" "$OLD" "$NEW" <<'PY'
import sys
p,old,new=sys.argv[1:4]
s=open(p).read()
if old not in s: print("MUT: pattern not found"); sys.exit(3)
open(p,'w').write(s.replace(old,new,1))
PY
[ $? -eq 0 ] || { rm -rf "$D"; exit 3; }
(cd "$D" && GOFLAGS=-mod=mod GOPROXY=off go build ./... 2>&1 | head -5)
GOVC_TRUSTED_DIR=/verif/trusted GOVC_BASELINE_DIR=/verif/baseline GOVC_KNOWN_FINDINGS=/verif/known_findings.jsonl /verif/bin/govc check "$PROP" --repo "$D" --verif /tmp/mutout 2>&1 | grep -E "FAILED|REGRESSED|VIOLATION|UNDECIDED|^property" | cut -c1-250
rm -rf "$D" /tmp/mutout
