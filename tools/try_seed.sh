#!/bin/bash
# try_seed.sh <patch.diff> <PROP>... : apply a seeded change to /repo, run the checks, undo it.
# (/repo's tracked changes must be committed first: the undo is `git checkout -- .`; evidence files written
# while the patch is applied are restored afterwards)
P="$1"; shift
git -C /repo apply "$P" || { echo "patch does not apply"; exit 3; }
T=$(mktemp -d /tmp/try_seed.XXXXXX); cp /verif/evidence/*.json $T/ 2>/dev/null
for id in "$@"; do /verif/check "$id" 2>&1 | grep -E "^FAILED|^REGRESSED|^VIOLATION|^UNDECIDED|^property|^KNOWN" | cut -c1-260; done
git -C /repo checkout -- . 
cp $T/*.json /verif/evidence/ 2>/dev/null; rm -rf $T
git -C /repo status --short | head -3
