#!/bin/bash
# try_seed.sh <patch.diff> <PROP>... : apply a seeded change to /repo, run the checks, undo it.
P="$1"; shift
git -C /repo apply "$P" || { echo "patch does not apply"; exit 3; }
for id in "$@"; do /verif/check "$id" 2>&1 | grep -E "^FAILED|^REGRESSED|^VIOLATION|^UNDECIDED|^property|^KNOWN" | cut -c1-260; done
git -C /repo checkout -- . 
git -C /repo status --short | head -3
