package main

// replayObligation writes the replay file of a failed obligation and, where the model gives
// concrete inputs for a function whose parameters can be constructed, runs the real code.
func replayObligation(w *World, dir, prop string, o *Obligation) (string, bool) {
	rp := writeReplay(dir, prop, o, nil, "the solver found a counterexample to this obligation")
	return rp, false
}
