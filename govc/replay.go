package main

import (
	"context"
	"encoding/json"
	"fmt"
	"go/types"
	"os"
	"os/exec"
	"path/filepath"
	"sort"
	"strconv"
	"strings"

	"golang.org/x/tools/go/ssa"
)

// Counterexample replay.  The solver's model of a failed obligation is turned into concrete arguments
// (and a receiver) for the real function, a test that calls it is injected with `go test -overlay`
// (nothing is written to /repo), and the violation counts as confirmed when the real code shows it:
// a run-time panic for memory-safety obligations, the generated Go function of the postcondition
// returning false for quantifier-free `ensures` obligations.  Supported inputs: integers, booleans,
// strings, byte slices, string slices, pointers to structs whose fields are of those kinds (other
// fields stay zero).  Anything else: not replayed (the VIOLATION line then ends with
// no-failing-input-found and the replay file still carries the model and the solver output).

const replayMaxLen = 1 << 16

type rpVal struct {
	expr  string   // Go expression
	decls []string // statements to run before
}

func replayObligation(w *World, dir, prop string, o *Obligation) (string, bool) {
	if o.EvalPkg != "" {
		// a closed fact: it was decided by evaluating the real code, which is the replay
		rp := writeReplay(dir, prop, o, map[string]interface{}{"replayed": true, "replay": "go test evaluated the closed expression on the real code: false"}, "closed fact evaluates to false on the real code")
		return rp, true
	}
	extra := map[string]interface{}{}
	confirmed := false
	func() {
		defer func() {
			if r := recover(); r != nil {
				extra["replay_skipped"] = fmt.Sprint(r)
			}
		}()
		confirmed = doReplay(w, dir, o, extra)
	}()
	why := "the solver found a counterexample to this obligation"
	if confirmed {
		why += "; replayed on the real code: confirmed"
	}
	rp := writeReplay(dir, prop, o, extra, why)
	return rp, confirmed
}

func findFn(w *World, display string) (*ssa.Function, *FuncContract) {
	for fc, fn := range w.FnOf {
		if fnDisplayName(fn) == display {
			return fn, fc
		}
	}
	return nil, nil
}

func parseBV(v string) (uint64, bool) {
	v = strings.TrimSpace(v)
	switch {
	case v == "true":
		return 1, true
	case v == "false":
		return 0, true
	case strings.HasPrefix(v, "#x"):
		n, err := strconv.ParseUint(v[2:], 16, 64)
		return n, err == nil
	case strings.HasPrefix(v, "#b"):
		n, err := strconv.ParseUint(v[2:], 2, 64)
		return n, err == nil
	case strings.HasPrefix(v, "(_ bv"):
		f := strings.Fields(v[5:])
		n, err := strconv.ParseUint(f[0], 10, 64)
		return n, err == nil
	}
	return 0, false
}

type replayer struct {
	w     *World
	o     *Obligation
	model map[string]string
	ask   map[string]bool // extra terms wanted from the solver
	pass  int
	nvar  int
}

func (r *replayer) get(term string) (uint64, bool) {
	if v, ok := r.model[term]; ok {
		return parseBV(v)
	}
	r.ask[term] = true
	return 0, false
}

func (r *replayer) heapDeclared(name string) (string, bool) {
	s := sym(name + "@0")
	return s, strings.Contains(r.o.Text, "(declare-const "+s+" ")
}

func bv(w int, v uint64) string {
	if w == 32 {
		return fmt.Sprintf("#x%08x", v)
	}
	return fmt.Sprintf("#x%016x", v)
}

func signed(v uint64, w int) int64 {
	if w < 64 && v&(1<<uint(w-1)) != 0 {
		return int64(v) - (1 << uint(w))
	}
	return int64(v)
}

// build constructs a Go expression of type t from component terms ts (consumed in comps order).
func (r *replayer) build(t types.Type, ts []T, qual types.Qualifier) (rpVal, bool) {
	u := under(t)
	tn := types.TypeString(t, qual)
	switch x := u.(type) {
	case *types.Basic:
		if w, sg := intInfo(x); w > 0 {
			v, ok := r.get(ts[0])
			if !ok {
				return rpVal{}, false
			}
			if sg {
				return rpVal{expr: fmt.Sprintf("%s(%d)", tn, signed(v, w))}, true
			}
			return rpVal{expr: fmt.Sprintf("%s(%d)", tn, v)}, true
		}
		if x.Info()&types.IsBoolean != 0 {
			v, ok := r.get(ts[0])
			if !ok {
				return rpVal{}, false
			}
			return rpVal{expr: fmt.Sprintf("%s(%v)", tn, v != 0)}, true
		}
		if x.Info()&types.IsString != 0 {
			b, ok1 := r.get(ts[0])
			o, ok2 := r.get(ts[1])
			l, ok3 := r.get(ts[2])
			if !ok1 || !ok2 || !ok3 {
				return rpVal{}, false
			}
			if l > replayMaxLen {
				panic("string too long for replay")
			}
			bs := make([]byte, l)
			all := true
			for i := uint64(0); i < l; i++ {
				c, ok := r.get(fmt.Sprintf("(select (select StrData %s) %s)", bv(32, b), bv(64, o+i)))
				if !ok {
					all = false
					continue
				}
				bs[i] = byte(c)
			}
			if !all {
				return rpVal{}, false
			}
			return rpVal{expr: fmt.Sprintf("%s(%q)", tn, string(bs))}, true
		}
	case *types.Slice:
		b, ok1 := r.get(ts[0])
		o, ok2 := r.get(ts[1])
		l, ok3 := r.get(ts[2])
		c, ok4 := r.get(ts[3])
		if !ok1 || !ok2 || !ok3 || !ok4 {
			return rpVal{}, false
		}
		if b == 0 {
			return rpVal{expr: fmt.Sprintf("%s(nil)", tn)}, true
		}
		if l > replayMaxLen || c > replayMaxLen {
			if l > replayMaxLen {
				panic("slice too long for replay")
			}
			c = l
		}
		ecs := comps(x.Elem())
		var elems []string
		all := true
		for i := uint64(0); i < l; i++ {
			var ets []T
			for _, ec := range ecs {
				hs, declared := r.heapDeclared("E|" + elemKey(x.Elem()) + ec.suffix)
				if !declared {
					ets = append(ets, "")
					continue
				}
				ets = append(ets, fmt.Sprintf("(select (select %s %s) %s)", hs, bv(32, b), bv(64, o+i)))
			}
			ev, ok := r.buildOrZero(x.Elem(), ets, qual)
			if !ok {
				all = false
				continue
			}
			elems = append(elems, ev.expr)
		}
		if !all {
			return rpVal{}, false
		}
		r.nvar++
		name := fmt.Sprintf("rv%d", r.nvar)
		decl := fmt.Sprintf("%s := make(%s, %d, %d)", name, tn, l, c)
		decls := []string{decl}
		for i, ev := range elems {
			decls = append(decls, fmt.Sprintf("%s[%d] = %s", name, i, ev))
		}
		return rpVal{expr: name, decls: decls}, true
	case *types.Pointer:
		ref, ok := r.get(ts[0])
		if !ok {
			return rpVal{}, false
		}
		if ref == 0 {
			return rpVal{expr: fmt.Sprintf("(%s)(nil)", tn)}, true
		}
		st, ok := under(x.Elem()).(*types.Struct)
		if !ok {
			return rpVal{expr: fmt.Sprintf("new(%s)", types.TypeString(x.Elem(), qual))}, true
		}
		r.nvar++
		name := fmt.Sprintf("rv%d", r.nvar)
		decls := []string{fmt.Sprintf("%s := new(%s)", name, types.TypeString(x.Elem(), qual))}
		all := true
		for i := 0; i < st.NumFields(); i++ {
			f := st.Field(i)
			ft := f.Type()
			switch under(ft).(type) {
			case *types.Basic, *types.Slice:
			default:
				continue // other field kinds stay zero
			}
			if sl, isSl := under(ft).(*types.Slice); isSl {
				if _, ok := under(sl.Elem()).(*types.Basic); !ok {
					continue
				}
			}
			var fts []T
			declared := true
			for _, fc := range comps(ft) {
				hs, d := r.heapDeclared(structFam(x.Elem(), fieldName(st, i)) + fc.suffix)
				if !d {
					declared = false
					break
				}
				fts = append(fts, fmt.Sprintf("(select %s %s)", hs, bv(32, ref)))
			}
			if !declared {
				continue
			}
			fv, ok := r.build(ft, fts, qual)
			if !ok {
				all = false
				continue
			}
			decls = append(decls, fv.decls...)
			decls = append(decls, fmt.Sprintf("%s.%s = %s", name, f.Name(), fv.expr))
		}
		if !all {
			return rpVal{}, false
		}
		return rpVal{expr: name, decls: decls}, true
	case *types.Interface:
		return rpVal{expr: fmt.Sprintf("%s(nil)", tn)}, true
	case *types.Struct:
		// a struct passed by value: fields of supported kinds are set, the others stay zero
		r.nvar++
		name := fmt.Sprintf("rv%d", r.nvar)
		decls := []string{fmt.Sprintf("var %s %s", name, tn)}
		idx := 0
		all := true
		for i := 0; i < x.NumFields(); i++ {
			f := x.Field(i)
			n := len(comps(f.Type()))
			fts := ts[idx : idx+n]
			idx += n
			switch under(f.Type()).(type) {
			case *types.Basic:
			case *types.Slice:
				if _, ok := under(under(f.Type()).(*types.Slice).Elem()).(*types.Basic); !ok {
					continue
				}
			default:
				continue
			}
			fv, ok := r.build(f.Type(), fts, qual)
			if !ok {
				all = false
				continue
			}
			decls = append(decls, fv.decls...)
			decls = append(decls, fmt.Sprintf("%s.%s = %s", name, f.Name(), fv.expr))
		}
		if !all {
			return rpVal{}, false
		}
		return rpVal{expr: name, decls: decls}, true
	case *types.Signature, *types.Map, *types.Chan:
		return rpVal{expr: fmt.Sprintf("(%s)(nil)", tn)}, true
	}
	panic("parameter type not supported by the replayer: " + tn)
}

func (r *replayer) buildOrZero(t types.Type, ts []T, qual types.Qualifier) (rpVal, bool) {
	for _, x := range ts {
		if x == "" {
			// heap never read by the function: any content will do
			switch under(t).(type) {
			case *types.Basic:
				if b := under(t).(*types.Basic); b.Info()&types.IsString != 0 {
					return rpVal{expr: `""`}, true
				} else if b.Info()&types.IsBoolean != 0 {
					return rpVal{expr: "false"}, true
				}
				return rpVal{expr: "0"}, true
			}
			panic("element type not supported by the replayer")
		}
	}
	return r.build(t, ts, qual)
}

func doReplay(w *World, dir string, o *Obligation, extra map[string]interface{}) bool {
	if !(strings.HasPrefix(o.Kind, "safe.") || (o.Kind == "ensures" && o.SpecFn != "")) {
		panic("obligation kind not replayable (only memory-safety and postcondition obligations are)")
	}
	fn, _ := findFn(w, o.Func)
	if fn == nil || fn.Parent() != nil || fn.Pkg == nil {
		panic("function not replayable (closure or not found)")
	}
	if o.Model == nil {
		o.Model = map[string]string{}
	}
	pkg := fn.Pkg.Pkg
	qual := func(p *types.Package) string {
		if p == pkg {
			return ""
		}
		return p.Name()
	}
	r := &replayer{w: w, o: o, model: map[string]string{}, ask: map[string]bool{}}
	for k, v := range o.Model {
		r.model[k] = v
	}
	// prefer a model with short strings and slices: same query with the lengths of the parameters bounded
	{
		var lens []T
		idx := 0
		for _, p := range fn.Params {
			cs := comps(p.Type())
			for i, c := range cs {
				if idx+i < len(o.ModelVars) && (c.suffix == "#l" || c.suffix == "#c" || c.suffix == "#o") {
					lens = append(lens, o.ModelVars[idx+i])
				}
			}
			idx += len(cs)
		}
		base := o.Text
		if i := strings.LastIndex(base, "(check-sat)"); i >= 0 {
			base = base[:i]
		}
		if len(lens) > 0 && len(o.ModelVars) > 0 {
			for _, bound := range []int{8, 64, 1024, 32768} {
				text := base
				if bound <= 64 {
					// bounded instances of the quantified assumptions make small realistic models findable
					text = instantiateQuantifiers(base, 2*bound)
				}
				for _, l := range lens {
					text += fmt.Sprintf("(assert (bvsle %s (_ bv%d 64)))\n", l, bound)
				}
				text += "(check-sat)\n(get-value (" + strings.Join(o.ModelVars, " ") + "))\n"
				res := runSolver(context.Background(), solvers[0], text, filepath.Dir(o.SmtFile), sanitizeFile(o.Name)+".small", 20)
				if res.status == "sat" {
					if got := parseModel(res.raw); len(got) > 0 {
						r.model = got
						extra["replay_model"] = got
						// later queries must stay within this bound
						o = &Obligation{Name: o.Name, Kind: o.Kind, Func: o.Func, SpecFn: o.SpecFn, ModelVars: o.ModelVars, SmtFile: o.SmtFile, Text: strings.Replace(text, "(check-sat)\n(get-value ("+strings.Join(o.ModelVars, " ")+"))\n", "(check-sat)\n", 1)}
						r.o = o
						break
					}
				}
			}
		}
	}
	// imports needed by type names
	imports := map[string]string{}
	var noteImports func(t types.Type)
	noteImports = func(t types.Type) {
		switch x := types.Unalias(t).(type) {
		case *types.Named:
			if x.Obj().Pkg() != nil && x.Obj().Pkg() != pkg {
				imports[x.Obj().Pkg().Path()] = x.Obj().Pkg().Name()
			}
		case *types.Pointer:
			noteImports(x.Elem())
		case *types.Slice:
			noteImports(x.Elem())
		}
	}
	var vals []rpVal
	for pass := 0; pass < 6; pass++ {
		r.ask = map[string]bool{}
		r.nvar = 0
		vals = nil
		idx := 0
		okAll := true
		for _, p := range fn.Params {
			n := len(comps(p.Type()))
			if idx+n > len(o.ModelVars) {
				panic("model variables do not line up with the parameters")
			}
			noteImports(p.Type())
			v, ok := r.build(p.Type(), o.ModelVars[idx:idx+n], qual)
			idx += n
			if !ok {
				okAll = false
			}
			vals = append(vals, v)
		}
		if okAll {
			break
		}
		if len(r.ask) == 0 || pass == 5 {
			panic("model incomplete")
		}
		// ask the solver for the missing terms, pinning everything already read from the model
		var terms []string
		for t := range r.ask {
			terms = append(terms, t)
		}
		sort.Strings(terms)
		text := o.Text
		if i := strings.LastIndex(text, "(check-sat)"); i >= 0 {
			text = text[:i]
		}
		var known []string
		for k := range r.model {
			known = append(known, k)
		}
		sort.Strings(known)
		for _, k := range known {
			text += fmt.Sprintf("(assert (= %s %s))\n", k, r.model[k])
		}
		text += "(check-sat)\n(get-value (" + strings.Join(append(append([]string{}, known...), terms...), " ") + "))\n"
		res := runSolver(context.Background(), solvers[0], text, filepath.Dir(o.SmtFile), sanitizeFile(o.Name)+".replay", 30)
		if res.status != "sat" {
			panic("solver did not reproduce the model for the replay query: " + res.status)
		}
		got := parseModel(res.raw)
		if len(got) == 0 {
			panic("no values returned")
		}
		for k, v := range got {
			r.model[k] = v
		}
	}
	// the call
	var b strings.Builder
	b.WriteString("//go:build verif\n\npackage " + pkg.Name() + "\n\nimport (\n\t\"fmt\"\n\t\"testing\"\n")
	var ips []string
	for p := range imports {
		ips = append(ips, p)
	}
	sort.Strings(ips)
	for _, p := range ips {
		fmt.Fprintf(&b, "\t%s %q\n", imports[p], p)
	}
	b.WriteString(")\n\nfunc TestZZVerifReplay(t *testing.T) {\n")
	var args []string
	for i, v := range vals {
		for _, d := range v.decls {
			b.WriteString("\t" + d + "\n")
		}
		fmt.Fprintf(&b, "\ta%d := %s\n\t_ = a%d\n", i, v.expr, i)
		args = append(args, fmt.Sprintf("a%d", i))
	}
	call := ""
	if fn.Signature.Recv() != nil {
		call = fmt.Sprintf("a0.%s(%s)", fn.Name(), strings.Join(args[1:], ", "))
	} else {
		call = fmt.Sprintf("%s(%s)", fn.Name(), strings.Join(args, ", "))
	}
	nres := fn.Signature.Results().Len()
	var resNames []string
	for i := 0; i < nres; i++ {
		resNames = append(resNames, fmt.Sprintf("r%d", i))
	}
	b.WriteString("\tfunc() {\n\t\tdefer func() {\n\t\t\tif r := recover(); r != nil {\n\t\t\t\tfmt.Printf(\"REPLAY-PANIC %v\\n\", r)\n\t\t\t}\n\t\t}()\n")
	post := ""
	if o.Kind == "ensures" {
		info := w.SpecInfo[o.SpecFn]
		gen := ""
		for p, src := range w.GenFiles {
			if filepath.Dir(p) == filepath.Dir(w.Fset.Position(fn.Pos()).Filename) {
				gen = string(src)
			}
		}
		k := strings.Index(gen, "func "+o.SpecFn+"(")
		body := ""
		if k >= 0 {
			body = gen[k:]
			if e := strings.Index(body, "\n}\n"); e >= 0 {
				body = body[:e]
			}
		}
		if info == nil || body == "" || strings.Contains(body, "spec_forall") || strings.Contains(body, "spec_exists") || strings.Contains(body, "G_") || strings.Contains(body, "spec_fresh") || strings.Contains(body, "spec_same") || strings.Contains(body, "spec_allocated") {
			panic("postcondition uses quantifiers, ghosts or allocation predicates: not executable")
		}
		var sargs []string
		for _, a := range info.Args {
			switch a.Role {
			case "param":
				sargs = append(sargs, fmt.Sprintf("a%d", a.Idx))
			case "old":
				// value at entry: copies taken before the call
				sargs = append(sargs, fmt.Sprintf("o%d", a.Idx))
			case "result":
				sargs = append(sargs, fmt.Sprintf("r%d", a.Idx))
			default:
				panic("postcondition mentions a local variable")
			}
		}
		for i, p := range fn.Params {
			switch x := under(p.Type()).(type) {
			case *types.Slice:
				fmt.Fprintf(&b, "\t\to%d := append(a%d[:0:0], a%d...)\n\t\t_ = o%d\n", i, i, i, i)
			case *types.Pointer:
				if _, ok := under(x.Elem()).(*types.Struct); ok {
					fmt.Fprintf(&b, "\t\tvar o%d %s\n\t\tif a%d != nil {\n\t\t\tcp := *a%d\n\t\t\to%d = &cp\n\t\t}\n\t\t_ = o%d\n", i, types.TypeString(p.Type(), qual), i, i, i, i)
				} else {
					fmt.Fprintf(&b, "\t\to%d := a%d\n\t\t_ = o%d\n", i, i, i)
				}
			default:
				fmt.Fprintf(&b, "\t\to%d := a%d\n\t\t_ = o%d\n", i, i, i)
			}
		}
		post = fmt.Sprintf("\t\tif %s(%s) {\n\t\t\tfmt.Println(\"REPLAY-POST-TRUE\")\n\t\t} else {\n\t\t\tfmt.Println(\"REPLAY-POST-FALSE\")\n\t\t}\n", o.SpecFn, strings.Join(sargs, ", "))
	}
	if nres > 0 {
		fmt.Fprintf(&b, "\t\t%s := %s\n", strings.Join(resNames, ", "), call)
		for _, rn := range resNames {
			fmt.Fprintf(&b, "\t\t_ = %s\n", rn)
		}
	} else {
		fmt.Fprintf(&b, "\t\t%s\n", call)
	}
	b.WriteString("\t\tfmt.Println(\"REPLAY-RETURNED\")\n")
	b.WriteString(post)
	b.WriteString("\t}()\n}\n")
	src := b.String()
	extra["replay_test"] = src

	// run it
	pkgDir := filepath.Dir(w.Fset.Position(fn.Pos()).Filename)
	ovDir := filepath.Join(dir, "overlay_"+sanitizeFile(o.Name))
	os.RemoveAll(ovDir)
	os.MkdirAll(ovDir, 0o755)
	defer os.RemoveAll(ovDir)
	replace := map[string]string{}
	n := 0
	add := func(path string, content []byte) {
		n++
		f := filepath.Join(ovDir, fmt.Sprintf("f%d_%s", n, filepath.Base(path)))
		os.WriteFile(f, content, 0o644)
		replace[path] = f
	}
	for p, c := range w.GenFiles {
		add(p, c)
	}
	add(filepath.Join(pkgDir, "zz_verif_replay_test.go"), []byte(src))
	ovJSON, _ := json.Marshal(map[string]interface{}{"Replace": replace})
	ovFile := filepath.Join(ovDir, "overlay.json")
	os.WriteFile(ovFile, ovJSON, 0o644)
	cmd := exec.Command("go", "test", "-tags", "verif", "-overlay", ovFile, "-vet=off", "-count=1", "-timeout", "60s", "-run", "^TestZZVerifReplay$", "-v", fn.Pkg.Pkg.Path())
	cmd.Dir = w.RepoDir
	cmd.Env = append(os.Environ(), "GOFLAGS=-mod=mod", "GOPROXY=off", "GOSUMDB=off", "GOTOOLCHAIN=local")
	out, _ := cmd.CombinedOutput()
	so := string(out)
	var keep []string
	for _, l := range strings.Split(so, "\n") {
		if strings.HasPrefix(l, "REPLAY-") || strings.Contains(l, "FAIL") || strings.Contains(l, "cannot") || strings.Contains(l, "undefined") {
			keep = append(keep, l)
		}
	}
	extra["replay_output"] = strings.Join(keep, "\n")
	switch {
	case strings.HasPrefix(o.Kind, "safe.") && strings.Contains(so, "REPLAY-PANIC"):
		extra["replayed"] = true
		return true
	case o.Kind == "ensures" && strings.Contains(so, "REPLAY-POST-FALSE"):
		extra["replayed"] = true
		return true
	}
	extra["replayed"] = false
	return false
}

// instantiateQuantifiers replaces every universally quantified assumption over 64-bit index variables by
// its instances for the values 0..n-1 (used only to find small candidate counterexamples that are then
// validated by running the real code; weakening assumptions cannot hide a real counterexample).
func instantiateQuantifiers(text string, n int) string {
	lines := strings.Split(text, "\n")
	for li, l := range lines {
		if !strings.HasPrefix(l, "(assert ") || !strings.Contains(l, "(forall ((") {
			continue
		}
		out, ok := instLine(l, n, 0)
		if !ok || len(out) > 4<<20 {
			lines[li] = "" // drop the assumption
			continue
		}
		lines[li] = out
	}
	return strings.Join(lines, "\n")
}

func instLine(l string, n int, depth int) (string, bool) {
	for depth < 6 {
		i := strings.Index(l, "(forall ((")
		if i < 0 {
			return l, true
		}
		end := matchParen(l, i)
		if end < 0 {
			return "", false
		}
		q := l[i : end+1]
		// binders
		bstart := len("(forall ")
		bend := matchParen(q, bstart)
		if bend < 0 {
			return "", false
		}
		binders := q[bstart+1 : bend]
		var names []string
		rest := binders
		for {
			rest = strings.TrimSpace(rest)
			if rest == "" {
				break
			}
			e := matchParen(rest, 0)
			if e < 0 {
				return "", false
			}
			b := rest[1:e]
			k := strings.IndexAny(b, " \t")
			if k < 0 || strings.TrimSpace(b[k:]) != "(_ BitVec 64)" {
				return "", false
			}
			names = append(names, b[:k])
			rest = rest[e+1:]
		}
		body := strings.TrimSpace(q[bend+1 : len(q)-1])
		if strings.HasPrefix(body, "(! ") {
			// strip the annotation
			inner := body[3:]
			e := 0
			if strings.HasPrefix(inner, "(") {
				e = matchParen(inner, 0) + 1
			} else {
				e = strings.IndexAny(inner, " ")
			}
			if e <= 0 {
				return "", false
			}
			body = inner[:e]
		}
		insts := []string{body}
		for _, nm := range names {
			var next []string
			for _, b := range insts {
				for v := 0; v < n; v++ {
					next = append(next, replaceToken(b, nm, fmt.Sprintf("(_ bv%d 64)", v)))
				}
				if len(next) > 4096 {
					return "", false
				}
			}
			insts = next
		}
		l = l[:i] + "(and " + strings.Join(insts, " ") + ")" + l[end+1:]
		depth++
	}
	return "", false
}

func replaceToken(s, name, val string) string {
	var b strings.Builder
	for {
		i := strings.Index(s, name)
		if i < 0 {
			b.WriteString(s)
			break
		}
		j := i + len(name)
		if j < len(s) && (isIdentChar(s[j]) || s[j] == '!' || s[j] == '#') {
			b.WriteString(s[:j])
			s = s[j:]
			continue
		}
		b.WriteString(s[:i])
		b.WriteString(val)
		s = s[j:]
	}
	return b.String()
}


// runReplayFile re-decides the obligation recorded in a replay file on the current tree: the property's
// check is run for the function the obligation belongs to; exit 1 (with the VIOLATION line) if that
// obligation is still violated, 0 if it is discharged now.
func runReplayFile(prop, file string) int {
	b, err := os.ReadFile(file)
	if err != nil {
		fmt.Println("cannot read replay file:", err)
		return 2
	}
	var m map[string]interface{}
	if json.Unmarshal(b, &m) != nil {
		fmt.Println("replay file is not JSON")
		return 2
	}
	name, _ := m["obligation"].(string)
	fn := name
	if i := strings.Index(name, "#"); i >= 0 {
		fn = name[:i]
	}
	fmt.Printf("replaying obligation %s (function %s)\n", name, fn)
	if src, ok := m["replay_test"].(string); ok && src != "" {
		fmt.Println("recorded test (re-generated and re-run by the check below):")
		fmt.Println(src)
	}
	verif := os.Getenv("VERIF_DIR")
	if verif == "" {
		verif = "/verif"
	}
	repo := os.Getenv("VERIF_REPO")
	if repo == "" {
		repo = "/repo"
	}
	rc := runCheck(prop, "quick", repo, verif, fn, false)
	return rc
}
