package main

import (
	"bytes"
	"context"
	"fmt"
	"os"
	"os/exec"
	"path/filepath"
	"sort"
	"strings"
	"sync"
	"time"
)

// T is an SMT-LIB term (text).
type T = string

const (
	sRef  = "(_ BitVec 32)"
	sBool = "Bool"
	sTag  = "(_ BitVec 32)"
	sI64  = "(_ BitVec 64)"
	sI8   = "(_ BitVec 8)"
	null  = "(_ bv0 32)"
)

func bvSort(w int) string { return fmt.Sprintf("(_ BitVec %d)", w) }

func bvLit(w int, v uint64) T {
	if w < 64 {
		v &= (uint64(1) << uint(w)) - 1
	}
	return fmt.Sprintf("(_ bv%d %d)", v, w)
}

func i64(v int64) T { return bvLit(64, uint64(v)) }

func arrSort(idx, el string) string { return "(Array " + idx + " " + el + ")" }

func app(op string, args ...T) T { return "(" + op + " " + strings.Join(args, " ") + ")" }

func tAnd(args ...T) T {
	var out []T
	for _, a := range args {
		if a == "true" || a == "" {
			continue
		}
		if a == "false" {
			return "false"
		}
		out = append(out, a)
	}
	switch len(out) {
	case 0:
		return "true"
	case 1:
		return out[0]
	}
	return app("and", out...)
}

func tOr(args ...T) T {
	var out []T
	for _, a := range args {
		if a == "false" || a == "" {
			continue
		}
		if a == "true" {
			return "true"
		}
		out = append(out, a)
	}
	switch len(out) {
	case 0:
		return "false"
	case 1:
		return out[0]
	}
	return app("or", out...)
}

func tNot(a T) T {
	switch a {
	case "true":
		return "false"
	case "false":
		return "true"
	}
	if strings.HasPrefix(a, "(not ") && strings.HasSuffix(a, ")") {
		inner := a[5 : len(a)-1]
		if balanced(inner) {
			return inner
		}
	}
	return "(not " + a + ")"
}

func balanced(s string) bool {
	d := 0
	for i := 0; i < len(s); i++ {
		switch s[i] {
		case '(':
			d++
		case ')':
			d--
			if d < 0 {
				return false
			}
		case ' ':
			if d == 0 {
				return false
			}
		}
	}
	return d == 0
}

func tImp(a, b T) T {
	if a == "true" {
		return b
	}
	if a == "false" || b == "true" {
		return "true"
	}
	return app("=>", a, b)
}

func tEq(a, b T) T {
	if a == b {
		return "true"
	}
	return app("=", a, b)
}

func tIte(c, a, b T) T {
	if c == "true" {
		return a
	}
	if c == "false" {
		return b
	}
	if a == b {
		return a
	}
	return app("ite", c, a, b)
}

func tSel(a T, idx ...T) T {
	for _, i := range idx {
		a = app("select", a, i)
	}
	return a
}

// tSto stores v at nested indices idx in array a.
func tSto(a T, idx []T, v T) T {
	if len(idx) == 1 {
		return app("store", a, idx[0], v)
	}
	inner := tSto(app("select", a, idx[0]), idx[1:], v)
	return app("store", a, idx[0], inner)
}

// ---------------------------------------------------------------------------

type Query struct {
	decls    []string
	declared map[string]string
	asserts  []string
}

func NewQuery() *Query { return &Query{declared: map[string]string{}} }

func (q *Query) Declare(name, sort string) T {
	if s, ok := q.declared[name]; ok {
		if s != sort {
			panic(fmt.Sprintf("redeclaration of %s: %s vs %s", name, s, sort))
		}
		return sym(name)
	}
	q.declared[name] = sort
	q.decls = append(q.decls, fmt.Sprintf("(declare-const %s %s)", sym(name), sort))
	return sym(name)
}

func (q *Query) DeclareFun(name string, args []string, res string) T {
	if _, ok := q.declared[name]; ok {
		return sym(name)
	}
	q.declared[name] = "fun"
	q.decls = append(q.decls, fmt.Sprintf("(declare-fun %s (%s) %s)", sym(name), strings.Join(args, " "), res))
	return sym(name)
}

func (q *Query) Assert(t T) {
	if t == "true" {
		return
	}
	q.asserts = append(q.asserts, t)
}

func sym(name string) string {
	simple := true
	for i := 0; i < len(name); i++ {
		c := name[i]
		if !(c >= 'a' && c <= 'z' || c >= 'A' && c <= 'Z' || c >= '0' && c <= '9' || c == '_' || c == '!' || c == '.' || c == '$' || c == '@' || c == '~' || c == '^' || c == '&' || c == '%' || c == '<' || c == '>' || c == '?' || c == '/' || c == '+' || c == '-' || c == '*' || c == '=') {
			simple = false
			break
		}
	}
	if simple && len(name) > 0 && !(name[0] >= '0' && name[0] <= '9') {
		return name
	}
	return "|" + strings.ReplaceAll(name, "|", "/") + "|"
}

type Obligation struct {
	Name       string
	Kind       string
	Func       string
	Pos        string
	Properties []string
	Desc       string
	Text       string   // full SMT-LIB query
	ModelVars  []string // terms whose values are requested on sat
	Cover      bool     // must be SAT
	Unsupported string
	Trusted    []string // trusted contracts / assumptions used by the function
	Bounded    string

	// results
	Status  string // discharged | failed | unknown | unsupported | covered | vacuous
	Solver  string
	Solvers []string
	TimeMs  int64
	Model   map[string]string
	Raw     string
	SmtFile string
	Quantified bool
	SpecFn     string        // ensures obligations: the generated Go function of the clause (used by the replayer)
	EvalPkg    string        // closed fact: decided by running spec function EvalFn of package EvalPkg (go test on the real code)
	EvalFn     string
	PreText    func() string // covers after a call: the same path just before the callee's contract was assumed
}

// Snapshot builds the query text for a goal: all declarations and assertions so far + the negated goal.
func (q *Query) Snapshot(nAsserts int, negGoal T, modelVars []T) string {
	var b strings.Builder
	for _, d := range q.decls {
		b.WriteString(d)
		b.WriteByte('\n')
	}
	for _, a := range q.asserts[:nAsserts] {
		b.WriteString("(assert ")
		b.WriteString(a)
		b.WriteString(")\n")
	}
	b.WriteString("(assert ")
	b.WriteString(negGoal)
	b.WriteString(")\n(check-sat)\n")
	if len(modelVars) > 0 {
		b.WriteString("(get-value (")
		b.WriteString(strings.Join(modelVars, " "))
		b.WriteString("))\n")
	}
	return b.String()
}

// ---------------------------------------------------------------------------
// Solver runner

type SolverSpec struct {
	Name string
	Cmd  func(file string, timeoutSec int) []string
	Pre  string
}

var solvers = []SolverSpec{
	{"z3-new-5.1.0", func(f string, t int) []string { return []string{"z3-new", fmt.Sprintf("-T:%d", t), "-smt2", f} }, ""},
	{"z3-4.8.12", func(f string, t int) []string { return []string{"z3", fmt.Sprintf("-T:%d", t), "-smt2", f} }, ""},
	{"z3-new-5.1.0/norelevancy", func(f string, t int) []string {
		return []string{"z3-new", fmt.Sprintf("-T:%d", t), "smt.relevancy=0", "smt.mbqi=false", "-smt2", f}
	}, ""},
	{"cvc5-1.0", func(f string, t int) []string {
		return []string{"cvc5", "--lang=smt2", fmt.Sprintf("--tlimit=%d", t*1000), "--produce-models", f}
	}, "(set-logic ALL)\n"},
}

type solveResult struct {
	status string // sat unsat unknown
	raw    string
	ms     int64
}

func runSolver(ctx context.Context, s SolverSpec, text string, dir, base string, timeoutSec int) solveResult {
	file := filepath.Join(dir, base+"."+strings.Split(s.Name, "-")[0]+".smt2")
	if strings.Contains(s.Name, "/") {
		file = filepath.Join(dir, base+".z3r.smt2")
	}
	pre := "(set-option :produce-models true)\n" + s.Pre
	if err := os.WriteFile(file, []byte(pre+text), 0o644); err != nil {
		return solveResult{"unknown", err.Error(), 0}
	}
	cctx, cancel := context.WithTimeout(ctx, time.Duration(timeoutSec+2)*time.Second)
	defer cancel()
	args := s.Cmd(file, timeoutSec)
	cmd := exec.CommandContext(cctx, args[0], args[1:]...)
	var out bytes.Buffer
	cmd.Stdout = &out
	cmd.Stderr = &out
	t0 := time.Now()
	cmd.Run()
	ms := time.Since(t0).Milliseconds()
	raw := out.String()
	first := strings.TrimSpace(strings.SplitN(raw, "\n", 2)[0])
	st := "unknown"
	switch first {
	case "sat", "unsat":
		st = first
	}
	return solveResult{st, raw, ms}
}

// Discharge decides one obligation.  All solvers are raced; the first definite answer wins
// (need == 1) or `need` different solvers must agree (thorough).
func Discharge(o *Obligation, outDir string, timeoutSec int, need int) {
	if o.Unsupported != "" {
		o.Status = "unsupported"
		return
	}
	if o.Cover {
		// vacuity guards only need to show that "false" is not derivable; a few seconds suffice, and a
		// quantified precondition often cannot be shown satisfiable (unknown = not shown contradictory)
		if timeoutSec > 5 {
			timeoutSec = 5
		}
		need = 1
	}
	base := sanitizeFile(o.Name)
	os.MkdirAll(outDir, 0o755)
	o.SmtFile = filepath.Join(outDir, base+".smt2")
	os.WriteFile(o.SmtFile, []byte(o.Text), 0o644)
	type named struct {
		s SolverSpec
		r solveResult
	}
	ctx, cancel := context.WithCancel(context.Background())
	defer cancel()
	ch := make(chan named, len(solvers))
	t0 := time.Now()
	// quick first attempt with the usually fastest solver alone keeps process count low
	first := runSolver(ctx, solvers[0], o.Text, outDir, base, 2)
	var results []named
	if first.status != "unknown" {
		results = append(results, named{solvers[0], first})
	}
	agreeNeeded := need
	if o.Cover && len(results) == 0 {
		// Satisfiability under quantified assumptions is rarely decided.  Without them the query is weaker:
		// "unsat" still proves the full set contradictory, "sat" shows that the quantifier-free part (path
		// conditions, contracts assumed at calls, allocation facts) is consistent.
		if qf := stripQuantified(o.Text); qf != o.Text {
			r := runSolver(ctx, solvers[0], qf, outDir, base+".qf", 4)
			if r.status == "sat" {
				results = append(results, named{solvers[0], solveResult{"sat", "quantifier-free part satisfiable", r.ms}})
			} else if r.status == "unsat" {
				results = append(results, named{solvers[0], r})
			}
		}
		if len(results) == 0 && o.PreText != nil {
			o.Status = "unknown"
			o.Raw = "not decided"
			o.TimeMs = time.Since(t0).Milliseconds()
			return
		}
	}
	if len(results) < agreeNeeded && !(len(results) == 1 && results[0].r.status == "sat" && !o.Cover) {
		pending := 0
		for i, s := range solvers {
			if i == 0 && first.status != "unknown" {
				continue
			}
			pending++
			go func(s SolverSpec) { ch <- named{s, runSolver(ctx, s, o.Text, outDir, base, timeoutSec)} }(s)
		}
		var grace <-chan time.Time
		if len(results) >= 1 && len(results) < agreeNeeded {
			grace = time.After(45 * time.Second)
		}
		for pending > 0 {
			var nr named
			select {
			case nr = <-ch:
			case <-grace:
				// thorough tier: a second solver family gets a bounded extra time after the first answer
				pending = 0
				continue
			}
			pending--
			if nr.r.status == "unknown" {
				if o.Raw == "" {
					o.Raw = nr.r.raw
					if strings.TrimSpace(o.Raw) == "" {
						o.Raw = "timeout"
					}
				}
				continue
			}
			dupFamily := false
			for _, r0 := range results {
				if strings.Split(r0.s.Name, "/")[0] == strings.Split(nr.s.Name, "/")[0] && r0.r.status == nr.r.status {
					dupFamily = true
				}
			}
			if dupFamily {
				continue
			}
			results = append(results, nr)
			if len(results) < agreeNeeded && grace == nil {
				grace = time.After(45 * time.Second)
			}
			if len(results) >= agreeNeeded || (nr.r.status == "sat" && !o.Cover) {
				break
			}
		}
		cancel()
	}
	o.TimeMs = time.Since(t0).Milliseconds()
	verdict := ""
	for _, nr := range results {
		if verdict == "" {
			verdict = nr.r.status
			o.Solver = nr.s.Name
			o.Raw = nr.r.raw
			if nr.r.status == "sat" {
				o.Model = parseModel(nr.r.raw)
			}
		} else if verdict != nr.r.status {
			o.Status = "unknown"
			o.Raw = "solver disagreement: " + o.Solver + " says " + verdict + ", " + nr.s.Name + " says " + nr.r.status
			return
		}
		o.Solvers = append(o.Solvers, nr.s.Name)
	}
	switch {
	case verdict == "":
		o.Status = "unknown"
	case o.Cover:
		if verdict == "sat" {
			o.Status = "covered"
		} else if o.PreText != nil {
			// contradiction after a call: the callee's contract is only to blame if the path was reachable before
			pre := runSolver(context.Background(), solvers[0], o.PreText(), outDir, base+".pre", timeoutSec)
			switch pre.status {
			case "sat":
				o.Status = "vacuous"
			case "unsat":
				o.Status = "covered"
				o.Raw = "path unreachable before the call as well"
			default:
				o.Status = "unknown"
			}
		} else {
			o.Status = "vacuous"
		}
	case verdict == "unsat":
		o.Status = "discharged"
		if len(results) < need {
			o.Bounded = "single-solver"
		}
	default:
		o.Status = "failed"
	}
}

func sanitizeFile(s string) string {
	r := strings.NewReplacer("/", "_", "*", "", "(", "", ")", "", " ", "_", ":", "_", "#", "-", "$", "_", "[", "_", "]", "_", ",", "_", "!", "_", "<", "_", ">", "_")
	s = r.Replace(s)
	if len(s) > 180 {
		s = s[:180]
	}
	return s
}

// parseModel parses a (get-value ...) answer: ((term value) (term value) ...)
func parseModel(raw string) map[string]string {
	m := map[string]string{}
	i := strings.Index(raw, "((")
	if i < 0 {
		return m
	}
	s := raw[i+1:]
	for {
		s = strings.TrimLeft(s, " \n\t\r")
		if !strings.HasPrefix(s, "(") {
			break
		}
		e := matchParen(s, 0)
		if e < 0 {
			break
		}
		pair := s[1:e]
		// split into term and value
		var term, val string
		pair = strings.TrimSpace(pair)
		if strings.HasPrefix(pair, "(") {
			k := matchParen(pair, 0)
			term, val = pair[:k+1], strings.TrimSpace(pair[k+1:])
		} else if strings.HasPrefix(pair, "|") {
			k := strings.Index(pair[1:], "|") + 1
			term, val = pair[:k+1], strings.TrimSpace(pair[k+1:])
		} else {
			k := strings.IndexAny(pair, " \n\t")
			if k < 0 {
				break
			}
			term, val = pair[:k], strings.TrimSpace(pair[k+1:])
		}
		m[term] = val
		s = s[e+1:]
	}
	return m
}

func bvValue(v string) (uint64, bool) {
	v = strings.TrimSpace(v)
	if strings.HasPrefix(v, "#x") {
		var x uint64
		_, err := fmt.Sscanf(v[2:], "%x", &x)
		return x, err == nil
	}
	if strings.HasPrefix(v, "#b") {
		var x uint64
		for _, c := range v[2:] {
			x = x<<1 | uint64(c-'0')
		}
		return x, true
	}
	if strings.HasPrefix(v, "(_ bv") {
		var x uint64
		var w int
		_, err := fmt.Sscanf(v, "(_ bv%d %d)", &x, &w)
		return x, err == nil
	}
	return 0, false
}

func DischargeAll(obls []*Obligation, outDir string, timeoutSec, need, workers int) {
	var wg sync.WaitGroup
	ch := make(chan *Obligation)
	for i := 0; i < workers; i++ {
		wg.Add(1)
		go func() {
			defer wg.Done()
			for o := range ch {
				Discharge(o, outDir, timeoutSec, need)
			}
		}()
	}
	// big ones first
	idx := make([]int, len(obls))
	for i := range idx {
		idx[i] = i
	}
	sort.SliceStable(idx, func(a, b int) bool { return len(obls[idx[a]].Text) > len(obls[idx[b]].Text) })
	for _, i := range idx {
		ch <- obls[i]
	}
	close(ch)
	wg.Wait()
}


// stripQuantified removes the assertions that contain a quantifier.
func stripQuantified(text string) string {
	lines := strings.Split(text, "\n")
	out := lines[:0:0]
	for _, l := range lines {
		if strings.HasPrefix(l, "(assert ") && (strings.Contains(l, "(forall ") || strings.Contains(l, "(exists ")) {
			continue
		}
		out = append(out, l)
	}
	return strings.Join(out, "\n")
}
