package main

import (
	"fmt"
	"go/types"
	"hash/fnv"
	"sort"
	"strings"

	"golang.org/x/tools/go/ssa"
)

// Val is the symbolic value of an SSA value.  Scalars are SMT terms (T).
type Val interface{}

type SliceV struct{ B, O, L, C T }
type StrV struct {
	B, O, L T
	Lit     *string
}
type IfaceV struct {
	Ty, V  T
	Boxed  Val
	BoxedT types.Type
	StaticI types.Type // static interface type this value was last seen at (narrows what "x.*" can be)
}

type ptrKind int

const (
	pStruct ptrKind = iota // pointer to a struct object: fields in F|S|f[Ref]
	pField                 // pointer to a non-struct field: Fam[Ref]
	pElem                  // pointer to a slice/array element: Fam[Ref][Idx]
	pCell                  // pointer to a standalone cell: Fam[Ref]
	pArr                   // pointer to an array: elements in E|T[Ref][i]
	pGlobal                // address of a package-level variable: heap name Fam
	pLocal                 // (pure mode) local cell
)

type LocalCell struct {
	val     Val
	tainted bool
}

type PtrV struct {
	Path   []int // pLocal: field path inside the cell's struct value
	Kind   ptrKind
	Ref    T
	Idx    T
	Fam    string
	Elem   types.Type // pointee type
	Local  *LocalCell
	NonNil bool
}

type StructV struct{ Fields []Val }
type TupleV struct{ Elems []Val }
type MapV struct{ Ref T }
type FuncV struct {
	Fn   *ssa.Function
	Bind []Val
	Ref  T
}
type ArrV struct{ A T }

const maxLen = int64(1) << 40

func under(t types.Type) types.Type {
	for {
		u := types.Unalias(t).Underlying()
		if u == t {
			return u
		}
		t = u
	}
}

func typeName(t types.Type) string {
	t = types.Unalias(t)
	if n, ok := t.(*types.Named); ok {
		if n.Obj().Pkg() != nil {
			return n.Obj().Pkg().Path() + "." + n.Obj().Name()
		}
		return n.Obj().Name()
	}
	s := t.String()
	if len(s) > 60 {
		h := fnv.New32a()
		h.Write([]byte(s))
		return fmt.Sprintf("anon#%08x", h.Sum32())
	}
	return s
}

// elemKey names the element heap for slices/arrays of t: by underlying representation
// for basic types (so []byte and []uint8 and named byte types share one heap).
func elemKey(t types.Type) string {
	u := under(t)
	switch b := u.(type) {
	case *types.Basic:
		w, _ := intInfo(b)
		if w > 0 {
			return fmt.Sprintf("bv%d", w)
		}
		return b.Name()
	case *types.Pointer:
		return "*" + typeName(b.Elem())
	}
	return typeName(t)
}

func intInfo(t types.Type) (width int, signed bool) {
	b, ok := under(t).(*types.Basic)
	if !ok {
		return 0, false
	}
	switch b.Kind() {
	case types.Int8:
		return 8, true
	case types.Int16:
		return 16, true
	case types.Int32:
		return 32, true
	case types.Int64, types.Int, types.UntypedInt, types.UntypedRune:
		return 64, true
	case types.Uint8:
		return 8, false
	case types.Uint16:
		return 16, false
	case types.Uint32:
		return 32, false
	case types.Uint64, types.Uint, types.Uintptr:
		return 64, false
	}
	return 0, false
}

func isFloat(t types.Type) bool {
	b, ok := under(t).(*types.Basic)
	return ok && b.Info()&(types.IsFloat|types.IsComplex) != 0
}

func isString(t types.Type) bool {
	b, ok := under(t).(*types.Basic)
	return ok && b.Info()&types.IsString != 0
}

func isBool(t types.Type) bool {
	b, ok := under(t).(*types.Basic)
	return ok && b.Info()&types.IsBoolean != 0
}

type comp struct {
	suffix string
	sort   string
}

// comps lists the scalar components a value of type t is stored as.
func comps(t types.Type) []comp {
	u := under(t)
	switch x := u.(type) {
	case *types.Basic:
		if w, _ := intInfo(x); w > 0 {
			return []comp{{"", bvSort(w)}}
		}
		if x.Info()&types.IsBoolean != 0 {
			return []comp{{"", sBool}}
		}
		if x.Info()&types.IsString != 0 {
			return []comp{{"#b", sRef}, {"#o", sI64}, {"#l", sI64}}
		}
		if x.Kind() == types.UnsafePointer {
			return []comp{{"", sRef}}
		}
		if x.Kind() == types.UntypedNil {
			return []comp{{"", sRef}}
		}
		return []comp{{"", sI64}} // floats, complex: opaque 64 bits
	case *types.Slice:
		return []comp{{"#b", sRef}, {"#o", sI64}, {"#l", sI64}, {"#c", sI64}}
	case *types.Pointer, *types.Map, *types.Chan, *types.Signature:
		return []comp{{"", sRef}}
	case *types.Interface:
		return []comp{{"#t", sTag}, {"#v", sRef}}
	case *types.Struct:
		var out []comp
		for i := 0; i < x.NumFields(); i++ {
			f := x.Field(i)
			for _, c := range comps(f.Type()) {
				out = append(out, comp{"." + fieldName(x, i) + c.suffix, c.sort})
			}
		}
		return out
	case *types.Array:
		cs := comps(x.Elem())
		var out []comp
		for _, c := range cs {
			out = append(out, comp{"[]" + c.suffix, arrSort(sI64, c.sort)})
		}
		return out
	case *types.Tuple:
		var out []comp
		for i := 0; i < x.Len(); i++ {
			for _, c := range comps(x.At(i).Type()) {
				out = append(out, comp{fmt.Sprintf("@%d%s", i, c.suffix), c.sort})
			}
		}
		return out
	}
	return []comp{{"", sRef}}
}

func fieldName(s *types.Struct, i int) string {
	n := s.Field(i).Name()
	if n == "_" {
		return fmt.Sprintf("_%d", i)
	}
	return n
}

// flat flattens v (of type t) into its component terms, in comps(t) order.
func flat(t types.Type, v Val) []T {
	u := under(t)
	switch x := u.(type) {
	case *types.Basic:
		if x.Info()&types.IsString != 0 {
			s := v.(*StrV)
			return []T{s.B, s.O, s.L}
		}
		return []T{v.(T)}
	case *types.Slice:
		s := v.(*SliceV)
		return []T{s.B, s.O, s.L, s.C}
	case *types.Pointer:
		p := v.(*PtrV)
		return []T{p.Ref}
	case *types.Map:
		return []T{v.(*MapV).Ref}
	case *types.Chan:
		return []T{v.(T)}
	case *types.Signature:
		return []T{v.(*FuncV).Ref}
	case *types.Interface:
		i := v.(*IfaceV)
		return []T{i.Ty, i.V}
	case *types.Struct:
		sv := v.(*StructV)
		var out []T
		for i := 0; i < x.NumFields(); i++ {
			out = append(out, flat(x.Field(i).Type(), sv.Fields[i])...)
		}
		return out
	case *types.Array:
		return []T{v.(*ArrV).A}
	case *types.Tuple:
		tv := v.(*TupleV)
		var out []T
		for i := 0; i < x.Len(); i++ {
			out = append(out, flat(x.At(i).Type(), tv.Elems[i])...)
		}
		return out
	}
	return []T{v.(T)}
}

// unflat is the inverse of flat: builds a Val of type t from component terms.
func unflat(t types.Type, ts []T) (Val, []T) {
	u := under(t)
	switch x := u.(type) {
	case *types.Basic:
		if x.Info()&types.IsString != 0 {
			return &StrV{B: ts[0], O: ts[1], L: ts[2]}, ts[3:]
		}
		return ts[0], ts[1:]
	case *types.Slice:
		return &SliceV{ts[0], ts[1], ts[2], ts[3]}, ts[4:]
	case *types.Pointer:
		return ptrFromRef(x, ts[0]), ts[1:]
	case *types.Map:
		return &MapV{ts[0]}, ts[1:]
	case *types.Chan:
		return ts[0], ts[1:]
	case *types.Signature:
		return &FuncV{Ref: ts[0]}, ts[1:]
	case *types.Interface:
		return &IfaceV{Ty: ts[0], V: ts[1]}, ts[2:]
	case *types.Struct:
		sv := &StructV{}
		for i := 0; i < x.NumFields(); i++ {
			var f Val
			f, ts = unflat(x.Field(i).Type(), ts)
			sv.Fields = append(sv.Fields, f)
		}
		return sv, ts
	case *types.Array:
		if len(comps(x.Elem())) != 1 {
			return &ArrV{ts[0]}, ts[len(comps(x.Elem())):]
		}
		return &ArrV{ts[0]}, ts[1:]
	case *types.Tuple:
		tv := &TupleV{}
		for i := 0; i < x.Len(); i++ {
			var f Val
			f, ts = unflat(x.At(i).Type(), ts)
			tv.Elems = append(tv.Elems, f)
		}
		return tv, ts
	}
	return ts[0], ts[1:]
}

// ptrFromRef interprets a reference loaded from memory (or a parameter) as a pointer of static type pt.
func ptrFromRef(pt *types.Pointer, ref T) *PtrV {
	el := pt.Elem()
	switch under(el).(type) {
	case *types.Struct:
		return &PtrV{Kind: pStruct, Ref: ref, Elem: el}
	case *types.Array:
		return &PtrV{Kind: pArr, Ref: ref, Elem: el}
	}
	return &PtrV{Kind: pCell, Ref: ref, Fam: "C|" + elemKey(el), Elem: el}
}

func structFam(t types.Type, field string) string {
	return "F|" + typeName(t) + "|" + field
}

// wf is the type invariant of a value (slice header sanity, string lengths).
func (e *Eng) wf(t types.Type, v Val) T {
	u := under(t)
	switch x := u.(type) {
	case *types.Basic:
		if x.Info()&types.IsString != 0 {
			s := v.(*StrV)
			if s.Lit != nil {
				return "true"
			}
			return tAnd(app("bvsle", i64(0), s.L), app("bvsle", s.L, i64(maxLen)), app("bvsle", i64(0), s.O), app("bvsle", s.O, i64(maxLen)))
		}
	case *types.Slice:
		s := v.(*SliceV)
		return tAnd(app("bvsle", i64(0), s.L), app("bvsle", s.L, s.C), app("bvsle", s.C, i64(maxLen)),
			app("bvsle", i64(0), s.O), app("bvsle", s.O, i64(maxLen)),
			tImp(tEq(s.B, null), tEq(s.C, i64(0))))
	case *types.Pointer:
		if _, ok := under(x.Elem()).(*types.Struct); ok {
			if p, ok := v.(*PtrV); ok && p.Kind == pStruct && p.Ref != null {
				return tOr(tEq(p.Ref, null), tEq(e.rtypeOf(p.Ref), e.structTag(x.Elem())))
			}
		}
	case *types.Interface:
		iv := v.(*IfaceV)
		cs := []T{tImp(tEq(iv.Ty, bvLit(32, 0)), tEq(iv.V, null))}
		// the dynamic type of a non-nil value of interface type J implements every interface I with J's methods
		for _, name := range e.sortedIfaces() {
			if it := e.ifaceSeen[name]; x.NumMethods() > 0 && types.Implements(x, it) {
				f := e.q.DeclareFun("impl|"+name, []string{sTag}, sBool)
				cs = append(cs, tImp(tNot(tEq(iv.Ty, bvLit(32, 0))), app(f, iv.Ty)))
			}
		}
		return tAnd(cs...)
	case *types.Struct:
		sv, ok := v.(*StructV)
		if !ok {
			return "true"
		}
		var cs []T
		for i := 0; i < x.NumFields(); i++ {
			cs = append(cs, e.wf(x.Field(i).Type(), sv.Fields[i]))
		}
		return tAnd(cs...)
	case *types.Tuple:
		tv := v.(*TupleV)
		var cs []T
		for i := 0; i < x.Len(); i++ {
			cs = append(cs, e.wf(x.At(i).Type(), tv.Elems[i]))
		}
		return tAnd(cs...)
	}
	return "true"
}

func zeroTerm(sort string) T {
	switch {
	case sort == sBool:
		return "false"
	case strings.HasPrefix(sort, "(_ BitVec "):
		var w int
		fmt.Sscanf(sort, "(_ BitVec %d)", &w)
		return bvLit(w, 0)
	case strings.HasPrefix(sort, "(Array "):
		// (Array idx el)
		inner := sort[len("(Array ") : len(sort)-1]
		// split idx / el
		var idx, el string
		if strings.HasPrefix(inner, "(") {
			k := matchParen(inner, 0)
			idx, el = inner[:k+1], strings.TrimSpace(inner[k+1:])
		} else {
			k := strings.Index(inner, " ")
			idx, el = inner[:k], strings.TrimSpace(inner[k+1:])
		}
		_ = idx
		return "((as const " + sort + ") " + zeroTerm(el) + ")"
	}
	return "false"
}

func zeroVal(t types.Type) Val {
	cs := comps(t)
	ts := make([]T, len(cs))
	for i, c := range cs {
		ts[i] = zeroTerm(c.sort)
	}
	v, _ := unflat(t, ts)
	if p, ok := v.(*PtrV); ok {
		_ = p
	}
	return v
}

// eqVal: structural equality of two values of type t.
func eqVal(t types.Type, a, b Val) T {
	fa, fb := flat(t, a), flat(t, b)
	var cs []T
	for i := range fa {
		cs = append(cs, tEq(fa[i], fb[i]))
	}
	return tAnd(cs...)
}

// iteVal merges two values componentwise.
func iteVal(t types.Type, c T, a, b Val) Val {
	if c == "true" {
		return a
	}
	if c == "false" {
		return b
	}
	fa, fb := flat(t, a), flat(t, b)
	ts := make([]T, len(fa))
	same := true
	for i := range fa {
		ts[i] = tIte(c, fa[i], fb[i])
		if fa[i] != fb[i] {
			same = false
		}
	}
	if same {
		return a
	}
	v, _ := unflat(t, ts)
	// keep pointer kinds when both sides agree
	if pa, ok := a.(*PtrV); ok {
		if pb, ok := b.(*PtrV); ok {
			pv := v.(*PtrV)
			if pa.Kind == pb.Kind && pa.Fam == pb.Fam {
				pv.Kind, pv.Fam, pv.Elem = pa.Kind, pa.Fam, pa.Elem
				if pa.Kind == pElem {
					pv.Idx = tIte(c, pa.Idx, pb.Idx)
				}
				pv.NonNil = pa.NonNil && pb.NonNil
			} else if isNullPtr(pb) {
				pv.Kind, pv.Fam, pv.Elem, pv.Idx = pa.Kind, pa.Fam, pa.Elem, pa.Idx
			} else if isNullPtr(pa) {
				pv.Kind, pv.Fam, pv.Elem, pv.Idx = pb.Kind, pb.Fam, pb.Elem, pb.Idx
			}
		}
	}
	return v
}

func isNullPtr(p *PtrV) bool { return p.Ref == null }

func (e *Eng) sortedIfaces() []string {
	var ns []string
	for n := range e.ifaceSeen {
		ns = append(ns, n)
	}
	sort.Strings(ns)
	return ns
}

// implFun returns the "dynamic type implements I" predicate and records I; facts for all concrete
// types whose tags are known are asserted (closed facts decided by go/types).
func (e *Eng) implFun(it types.Type) T {
	name := typeName(it)
	if _, ok := e.ifaceSeen[name]; !ok {
		e.ifaceSeen[name] = under(it).(*types.Interface)
		e.newNames = true // one more pass so that earlier values get the fact
	}
	f := e.q.DeclareFun("impl|"+name, []string{sTag}, sBool)
	e.implFacts()
	return f
}

func (e *Eng) implFacts() {
	if e.collect {
		return
	}
	for _, in := range e.sortedIfaces() {
		it := e.ifaceSeen[in]
		f := e.q.DeclareFun("impl|"+in, []string{sTag}, sBool)
		for k, ct := range e.tagTypes {
			key := in + "<-" + k
			if e.implDone[key] {
				continue
			}
			e.implDone[key] = true
			fact := app(f, e.typeTag(ct))
			if !types.Implements(ct, it) {
				fact = tNot(fact)
			}
			e.q.Assert(fact)
		}
	}
}
