package main

import (
	"fmt"
	"go/token"
	"go/types"
	"sort"
	"strings"

	"golang.org/x/tools/go/ssa"
)

// State is the symbolic memory at one program point.
type State struct {
	heap   map[string]T
	reach  T
	defers []*deferred
	tokens map[string]bool // unused (tokens live in heap as G|holds_x)
}

type deferred struct {
	guard T
	call  *ssa.CallCommon
	args  []Val
	fnv   Val
	instr ssa.Instruction
}

func (s *State) clone() *State {
	n := &State{heap: make(map[string]T, len(s.heap)), reach: s.reach}
	for k, v := range s.heap {
		n.heap[k] = v
	}
	n.defers = append([]*deferred{}, s.defers...)
	return n
}

type Frame struct {
	fn    *ssa.Function
	vals  map[ssa.Value]Val
	pure  bool
	taint map[ssa.Value]bool
	oldSt *State
	depth int
	pr    *pureResult
	side  *[]T // (pure mode) type invariants of the values loaded while evaluating a spec
}

type loopInfo struct {
	header *ssa.BasicBlock
	body   map[*ssa.BasicBlock]bool
	ord    int
	spec   *LoopSpec
	// set when the header is processed
	preState  *State
	headState *State
	phiHead   map[*ssa.Phi]Val
	variant0  T
	rangeIdx  *ssa.Phi
	rangeVal  ssa.Value
	minPos    token.Pos
	modTargets []modTarget
	modReady   bool
}

type edge struct {
	from, to *ssa.BasicBlock
	cond     T
	st       *State
}

type Eng struct {
	w    *World
	fn   *ssa.Function
	fc   *FuncContract
	q    *Query
	nfresh int

	heapNames map[string]string // name -> sort (registry)
	newNames  bool
	collect   bool // dry run: discover heap names only

	obls       []*Obligation
	oblCount   map[string]int
	entry      *State
	params     []Val
	fr         *Frame
	loops      map[*ssa.BasicBlock]*loopInfo
	loopList   []*loopInfo
	tags       map[string]int
	rtags      map[string]int
	privLocals []privLocal
	privMemo   map[*ssa.Alloc]bool
	detAx      map[string]bool
	detLits    map[string]map[int]map[string]bool // deterministic function -> string parameter -> literal arguments seen
	strLits    map[string]T
	notes      map[string]bool // assumptions / abstractions met
	trustedUse map[string]bool
	unsound    []string // events that make obligations of this function unsupported
	modelVars  []T
	modelNames map[string]string
	retEdges   []retEdge
	modified   map[string]bool
	allocBoundSeen bool
	subFuns    map[string]bool
	quantified bool
	curInstr   ssa.Instruction
	sendCount  map[string]int
	ownMods    []modTarget
	ifaceSeen  map[string]*types.Interface
	tagTypes   map[string]types.Type
	implDone   map[string]bool
	missingLoops []int
	localChans   []localChan
	siteHit      map[*SiteSpec]bool
	noCallHit    map[*Clause]bool
	binderDepth  int
}

type localChan struct {
	ref T
	in  *ssa.MakeChan
}

type retEdge struct {
	cond    T
	st      *State
	results []Val
}

func NewEng(w *World, fn *ssa.Function, fc *FuncContract) *Eng {
	return &Eng{w: w, fn: fn, fc: fc, heapNames: map[string]string{}, notes: map[string]bool{}, trustedUse: map[string]bool{}}
}

func (e *Eng) reset() {
	e.q = NewQuery()
	e.nfresh = 0
	e.obls = nil
	e.oblCount = map[string]int{}
	e.tags = map[string]int{}
	e.strLits = map[string]T{}
	e.loops = map[*ssa.BasicBlock]*loopInfo{}
	e.loopList = nil
	e.retEdges = nil
	e.modelVars = nil
	e.modelNames = map[string]string{}
	e.modified = map[string]bool{}
	e.unsound = nil
	e.subFuns = map[string]bool{}
	e.quantified = false
	e.sendCount = map[string]int{}
	e.ownMods = nil
	e.missingLoops = nil
	e.localChans = nil
	e.siteHit = nil
	e.noCallHit = nil
	e.tagTypes = map[string]types.Type{}
	e.implDone = map[string]bool{}
	e.detAx = nil
	e.privLocals = nil
	if e.ifaceSeen == nil {
		e.ifaceSeen = map[string]*types.Interface{}
	}
	e.q.Declare("StrData", arrSort(sRef, arrSort(sI64, sI8)))
}

func (e *Eng) fresh(hint, sort string) T {
	e.nfresh++
	hint = strings.Map(func(r rune) rune {
		if r == '|' || r == ' ' || r == '(' || r == ')' || r == '\\' || r == '"' || r == ';' {
			return '_'
		}
		return r
	}, hint)
	return e.q.Declare(fmt.Sprintf("%s!%d", hint, e.nfresh), sort)
}

func (e *Eng) note(s string) { e.notes[s] = true }

func (e *Eng) freshVal(t types.Type, hint string) Val {
	cs := comps(t)
	ts := make([]T, len(cs))
	for i, c := range cs {
		ts[i] = e.fresh(hint+c.suffix, c.sort)
	}
	v, _ := unflat(t, ts)
	return v
}

// assume adds a guarded assumption.
func (e *Eng) assume(st *State, t T) {
	if t == "true" || e.collect {
		return
	}
	e.q.Assert(tImp(st.reach, t))
}

// ---------------------------------------------------------------------------
// heap access

func (e *Eng) heapTerm(st *State, name, sort string) T {
	if s, ok := e.heapNames[name]; !ok {
		e.heapNames[name] = sort
		e.newNames = true
	} else if s != sort {
		panic(fmt.Sprintf("heap %s: sort %s vs %s", name, s, sort))
	}
	t, ok := st.heap[name]
	if !ok {
		// only during name collection, or for names discovered late (forces a restart)
		t = e.q.Declare(name+"@late", sort)
		st.heap[name] = t
	}
	return t
}

func heapSortFor(idxSorts []string, el string) string {
	s := el
	for i := len(idxSorts) - 1; i >= 0; i-- {
		s = arrSort(idxSorts[i], s)
	}
	return s
}

func idxSorts(n int) []string {
	switch n {
	case 0:
		return nil
	case 1:
		return []string{sRef}
	}
	return []string{sRef, sI64}
}

func (e *Eng) hload(st *State, prefix string, idx []T, t types.Type) Val {
	cs := comps(t)
	ts := make([]T, len(cs))
	for i, c := range cs {
		h := e.heapTerm(st, prefix+c.suffix, heapSortFor(idxSorts(len(idx)), c.sort))
		ts[i] = tSel(h, idx...)
	}
	v, _ := unflat(t, ts)
	return v
}

func (e *Eng) hstore(st *State, prefix string, idx []T, t types.Type, v Val) {
	cs := comps(t)
	ts := flat(t, v)
	for i, c := range cs {
		name := prefix + c.suffix
		h := e.heapTerm(st, name, heapSortFor(idxSorts(len(idx)), c.sort))
		if len(idx) == 0 {
			st.heap[name] = ts[i]
		} else {
			st.heap[name] = tSto(h, idx, ts[i])
		}
		e.modified[name] = true
	}
}

// loadPtr reads *p.
func (e *Eng) loadPtr(fr *Frame, st *State, p *PtrV, t types.Type) Val {
	switch p.Kind {
	case pLocal:
		v := p.Local.val
		for _, i := range p.Path {
			v = v.(*StructV).Fields[i]
		}
		return v
	case pStruct:
		s := under(t).(*types.Struct)
		sv := &StructV{}
		for i := 0; i < s.NumFields(); i++ {
			sv.Fields = append(sv.Fields, e.loadPtr(fr, st, e.fieldPtr(p, t, i), s.Field(i).Type()))
		}
		return sv
	case pField, pCell:
		return e.hload(st, p.Fam, []T{p.Ref}, t)
	case pElem:
		return e.hload(st, p.Fam, []T{p.Ref, p.Idx}, t)
	case pGlobal:
		return e.hload(st, p.Fam, nil, t)
	case pArr:
		a := under(t).(*types.Array)
		cs := comps(a.Elem())
		if len(cs) != 1 {
			e.note("array value with compound elements: havoc")
			return e.freshVal(t, "arr")
		}
		h := e.heapTerm(st, "E|"+elemKey(a.Elem())+cs[0].suffix, heapSortFor(idxSorts(2), cs[0].sort))
		return &ArrV{tSel(h, p.Ref)}
	}
	panic("loadPtr")
}

func (e *Eng) storePtr(fr *Frame, st *State, p *PtrV, t types.Type, v Val) {
	switch p.Kind {
	case pLocal:
		p.Local.val = setPath(p.Local.val, p.Path, v)
	case pStruct:
		s := under(t).(*types.Struct)
		sv, ok := v.(*StructV)
		if !ok {
			panic("storePtr: struct value expected")
		}
		for i := 0; i < s.NumFields(); i++ {
			e.storePtr(fr, st, e.fieldPtr(p, t, i), s.Field(i).Type(), sv.Fields[i])
		}
	case pField, pCell:
		e.hstore(st, p.Fam, []T{p.Ref}, t, v)
	case pElem:
		e.hstore(st, p.Fam, []T{p.Ref, p.Idx}, t, v)
	case pGlobal:
		e.hstore(st, p.Fam, nil, t, v)
	case pArr:
		a := under(t).(*types.Array)
		cs := comps(a.Elem())
		if len(cs) != 1 {
			e.note("array store with compound elements: ignored (havoc)")
			return
		}
		name := "E|" + elemKey(a.Elem()) + cs[0].suffix
		h := e.heapTerm(st, name, heapSortFor(idxSorts(2), cs[0].sort))
		st.heap[name] = app("store", h, p.Ref, v.(*ArrV).A)
		e.modified[name] = true
	}
}

func setPath(cur Val, path []int, v Val) Val {
	if len(path) == 0 {
		return v
	}
	sv := cur.(*StructV)
	nf := append([]Val{}, sv.Fields...)
	nf[path[0]] = setPath(sv.Fields[path[0]], path[1:], v)
	return &StructV{Fields: nf}
}

// fieldPtr computes &p.f for field i of struct type st (p points to a struct of type t).
func (e *Eng) fieldPtr(p *PtrV, t types.Type, i int) *PtrV {
	s := under(t).(*types.Struct)
	ft := s.Field(i).Type()
	fn := fieldName(s, i)
	switch p.Kind {
	case pLocal:
		np := *p
		np.Path = append(append([]int{}, p.Path...), i)
		np.Elem = ft
		return &np
	case pGlobal:
		return &PtrV{Kind: pGlobal, Fam: p.Fam + "." + fn, Elem: ft, NonNil: true, Ref: null}
	}
	switch under(ft).(type) {
	case *types.Struct:
		f := e.subFun("sub|"+typeName(t)+"|"+fn, e.structTag(ft))
		return &PtrV{Kind: pStruct, Ref: app(f, p.Ref), Elem: ft, NonNil: true}
	case *types.Array:
		f := e.subFun("sub|"+typeName(t)+"|"+fn, "")
		return &PtrV{Kind: pArr, Ref: app(f, p.Ref), Elem: ft, NonNil: true}
	}
	return &PtrV{Kind: pField, Ref: p.Ref, Fam: structFam(t, fn), Elem: ft, NonNil: true}
}

// subFun declares the reference of an embedded sub-object as a function of its container; the sub-object
// is as old as its container and never the null reference.
func (e *Eng) subFun(name string, tag T) T {
	if _, ok := e.q.declared[name]; !ok {
		f := e.q.DeclareFun(name, []string{sRef}, sRef)
		if tag != "" {
			rt := e.q.DeclareFun("rtype", []string{sRef}, sTag)
			e.q.Assert(fmt.Sprintf("(forall ((r!s %s)) (! (= (%s (%s r!s)) %s) :pattern ((%s r!s))))", sRef, rt, f, tag, f))
		}
		b := e.q.DeclareFun("birth", []string{sRef}, sI64)
		inv := e.q.DeclareFun(name+"^-1", []string{sRef}, sRef)
		// as old as its container, never null, and distinct containers have distinct sub-objects
		e.q.Assert(fmt.Sprintf("(forall ((r!s %s)) (! (and (= (%s (%s r!s)) (%s r!s)) (not (= (%s r!s) %s)) (= (%s (%s r!s)) r!s)) :pattern ((%s r!s))))", sRef, b, f, b, f, null, inv, f, f))
		return f
	}
	return sym(name)
}

func (e *Eng) elemRefFun(name string) T {
	if _, ok := e.q.declared[name]; !ok {
		f := e.q.DeclareFun(name, []string{sRef, sI64}, sRef)
		b := e.q.DeclareFun("birth", []string{sRef}, sI64)
		e.q.Assert(fmt.Sprintf("(forall ((r!s %s) (i!s %s)) (! (and (= (%s (%s r!s i!s)) (%s r!s)) (not (= (%s r!s i!s) %s))) :pattern ((%s r!s i!s))))", sRef, sI64, b, f, b, f, null, f))
		return f
	}
	return sym(name)
}

// elemPtr computes &base[idx] for element type et.
func (e *Eng) elemPtr(base, idx T, et types.Type) *PtrV {
	switch under(et).(type) {
	case *types.Struct:
		f := e.elemRefFun("elemref|" + typeName(et))
		return &PtrV{Kind: pStruct, Ref: app(f, base, idx), Elem: et, NonNil: true}
	case *types.Array:
		f := e.elemRefFun("elemref|" + typeName(et))
		return &PtrV{Kind: pArr, Ref: app(f, base, idx), Elem: et, NonNil: true}
	}
	return &PtrV{Kind: pElem, Ref: base, Idx: idx, Fam: "E|" + elemKey(et), Elem: et, NonNil: true}
}

func (e *Eng) allocTerm(st *State) T { return e.heapTerm(st, "Alloc", sI64) }

func (e *Eng) birth(r T) T {
	f := e.q.DeclareFun("birth", []string{sRef}, sI64)
	return app(f, r)
}

// newRef allocates a fresh object: allocation is modelled by time stamps, birth(r) < now
// means "allocated".  This keeps "allocated stays allocated" quantifier-free across loops.
func (e *Eng) newRef(fr *Frame, st *State, hint string) T {
	r := e.fresh("new_"+hint, sRef)
	if fr.pure {
		return r
	}
	now := e.allocTerm(st)
	e.assume(st, tAnd(tNot(tEq(r, null)), tEq(e.birth(r), now)))
	st.heap["Alloc"] = app("bvadd", now, bvLit(64, 1))
	return r
}

// structTag / rtypeOf: every struct object has one struct type (embedded sub-objects have references of
// their own), so a reference to a T object is never a reference to a U object.  Used to keep "any field
// of that object" havocs (modifies x.*) away from objects of other types.
func (e *Eng) structTag(t types.Type) T {
	return e.structTagByName(typeName(t))
}

func (e *Eng) structTagByName(k string) T {
	if e.rtags == nil {
		e.rtags = map[string]int{}
	}
	n, ok := e.rtags[k]
	if !ok {
		n = len(e.rtags) + 1
		e.rtags[k] = n
	}
	return bvLit(32, uint64(n))
}

func (e *Eng) rtypeOf(r T) T {
	return app(e.q.DeclareFun("rtype", []string{sRef}, sTag), r)
}

func (e *Eng) allocatedIn(st *State, r T) T {
	return app("bvult", e.birth(r), e.allocTerm(st))
}

func (e *Eng) assumeAllocated(fr *Frame, st *State, r T) {
	if fr.pure || r == null {
		return
	}
	e.assume(st, tOr(tEq(r, null), e.allocatedIn(st, r)))
}

// heapAxiom: every slice / string header stored in memory has sane length fields (heap well-typedness).
// Asserted for each named version of a "#l", "#c", "#o" component heap, so that contract clauses that
// read headers under quantifiers can rely on it.
func (e *Eng) heapAxiom(name string, h T) T {
	if true {
		// disabled: universally quantified well-typedness axioms made every query quantified (slow, and
		// vacuity covers came back "unknown").  Type invariants of values read by contract clauses are
		// instead assumed at the point of use, outside binders (see evalSpecArgs).
		return h
	}
	sort := e.heapNames[name]
	bound := func(t T) T { return tAnd(app("bvsle", i64(0), t), app("bvsle", t, i64(maxLen))) }
	switch sort {
	case sI64:
		e.q.Assert(bound(h))
	case arrSort(sRef, sI64):
		e.q.Assert(fmt.Sprintf("(forall ((r!h %s)) (! %s :pattern ((select %s r!h))))", sRef, bound(app("select", h, "r!h")), h))
	case arrSort(sRef, arrSort(sI64, sI64)):
		e.q.Assert(fmt.Sprintf("(forall ((r!h %s) (i!h %s)) (! %s :pattern ((select (select %s r!h) i!h))))", sRef, sI64, bound(tSel(h, "r!h", "i!h")), h))
	}
	return h
}

// havocAll forgets everything about memory (call of an unknown function).
func (e *Eng) havocAll(st *State, why string) {
	saved := e.savePrivLocals(st)
	defer e.restorePrivLocals(st, saved)
	names := e.sortedHeapNames()
	for _, n := range names {
		if n == "Alloc" || strings.HasPrefix(n, "G|holds_") || strings.HasPrefix(n, "G|chan") || strings.HasPrefix(n, "G|snap_") || e.w.stableGlobal(n) || e.w.immutableHeap(n) {
			// tokens, channel counters and snapshot ghosts (G_snap_*: written by no code, only defined by
			// call-site clauses) are ghost state of this function's own control flow
			continue
		}
		st.heap[n] = e.heapAxiom(n, e.fresh("hv|"+n, e.heapNames[n]))
		e.modified[n] = true
	}
}

func (e *Eng) sortedHeapNames() []string {
	var names []string
	for n := range e.heapNames {
		names = append(names, n)
	}
	sort.Strings(names)
	return names
}

// ---------------------------------------------------------------------------
// obligations

func (e *Eng) posOf(in ssa.Instruction) string {
	if in == nil {
		return e.w.Fset.Position(e.fn.Pos()).String()
	}
	p := in.Pos()
	if !p.IsValid() {
		// nearest instruction with a position in the same block
		b := in.Block()
		best := token.NoPos
		for _, i2 := range b.Instrs {
			if i2.Pos().IsValid() {
				best = i2.Pos()
			}
			if i2 == in && best.IsValid() {
				break
			}
		}
		p = best
	}
	if !p.IsValid() {
		p = e.fn.Pos()
	}
	pos := e.w.Fset.Position(p)
	return fmt.Sprintf("%s:%d", strings.TrimPrefix(pos.Filename, e.w.RepoDir+"/"), pos.Line)
}

func fnDisplayName(fn *ssa.Function) string {
	s := fn.String()
	s = strings.ReplaceAll(s, "github.com/bokysan/socketace/v2/internal/", "")
	return s
}

// oblige records a proof obligation: under st.reach, goal must hold.
func (e *Eng) oblige(st *State, kind, label string, props []string, goal T, in ssa.Instruction, desc string) {
	if e.collect || goal == "true" {
		if goal == "true" && !e.collect {
			// trivially true by construction: still counted, as discharged by the generator
			e.addObl(kind, label, props, "", in, desc, true)
		}
		return
	}
	neg := tAnd(st.reach, tNot(goal))
	o := e.addObl(kind, label, props, e.q.Snapshot(len(e.q.asserts), neg, e.modelVars), in, desc, false)
	o.Quantified = e.quantified || strings.Contains(o.Text, "(forall ") || strings.Contains(o.Text, "(exists ")
}

func (e *Eng) addObl(kind, label string, props []string, text string, in ssa.Instruction, desc string, trivial bool) *Obligation {
	base := fnDisplayName(e.fn) + "#" + kind
	if label != "" {
		base += ":" + label
	}
	e.oblCount[base]++
	name := base
	if n := e.oblCount[base]; n > 1 || label == "" {
		name = fmt.Sprintf("%s.%d", base, n)
	}
	o := &Obligation{Name: name, Kind: kind, Func: fnDisplayName(e.fn), Pos: e.posOf(in), Properties: props, Desc: desc, Text: text, ModelVars: e.modelVars}
	if trivial {
		o.Status = "discharged"
		o.Solver = "generator(constant-folded)"
	}
	if len(e.unsound) > 0 {
		o.Unsupported = strings.Join(e.unsound, "; ")
	}
	e.obls = append(e.obls, o)
	return o
}

func (e *Eng) cover(st *State, label string, props []string, in ssa.Instruction, desc string) {
	if e.collect {
		return
	}
	o := e.addObl("cover", label, props, e.q.Snapshot(len(e.q.asserts), st.reach, nil), in, desc, false)
	o.Cover = true
}

// safety obligation (only generated for functions with a `safe` clause); always assumed afterwards.
func (e *Eng) safe(fr *Frame, st *State, kind string, cond T, in ssa.Instruction, desc string) {
	if fr.pure {
		return
	}
	if e.fc != nil && len(e.fc.Safe) > 0 && e.fc.Trusted == "" {
		var props []string
		for p := range e.fc.Safe {
			props = append(props, p)
		}
		sort.Strings(props)
		e.oblige(st, "safe."+kind, "", props, cond, in, desc)
	}
	e.assume(st, cond)
}
