package main

import (
	"strconv"
	"fmt"
	"golang.org/x/tools/go/packages"
	"go/constant"
	"go/token"
	"math"
	"go/types"
	"sort"
	"strings"

	"golang.org/x/tools/go/ssa"
)

type unsupportedErr struct{ msg string }

func (u unsupportedErr) Error() string { return u.msg }

// rpo returns the blocks in reverse post-order, ignoring back edges.
func rpo(fn *ssa.Function) []*ssa.BasicBlock {
	seen := map[*ssa.BasicBlock]bool{}
	var post []*ssa.BasicBlock
	var dfs func(b *ssa.BasicBlock)
	dfs = func(b *ssa.BasicBlock) {
		seen[b] = true
		for _, s := range b.Succs {
			if !seen[s] && !s.Dominates(b) {
				dfs(s)
			}
		}
		post = append(post, b)
	}
	dfs(fn.Blocks[0])
	for i, j := 0, len(post)-1; i < j; i, j = i+1, j-1 {
		post[i], post[j] = post[j], post[i]
	}
	return post
}

func isBackEdge(from, to *ssa.BasicBlock) bool { return to.Dominates(from) }

func (e *Eng) findLoops() error {
	fn := e.fn
	heads := map[*ssa.BasicBlock][]*ssa.BasicBlock{}
	for _, b := range fn.Blocks {
		for _, s := range b.Succs {
			if isBackEdge(b, s) {
				heads[s] = append(heads[s], b)
			}
		}
	}
	for h, srcs := range heads {
		li := &loopInfo{header: h, body: map[*ssa.BasicBlock]bool{h: true}}
		var stack []*ssa.BasicBlock
		for _, s := range srcs {
			if !li.body[s] {
				li.body[s] = true
				stack = append(stack, s)
			}
		}
		for len(stack) > 0 {
			b := stack[len(stack)-1]
			stack = stack[:len(stack)-1]
			for _, p := range b.Preds {
				if !li.body[p] {
					li.body[p] = true
					stack = append(stack, p)
				}
			}
		}
		li.minPos = token.Pos(1 << 60)
		for b := range li.body {
			for _, in := range b.Instrs {
				if _, ok := in.(*ssa.DebugRef); ok {
					continue
				}
				if _, ok := in.(*ssa.Phi); ok {
					continue // a phi carries the position of the variable's declaration, not of the loop
				}
				if p := in.Pos(); p.IsValid() && p < li.minPos {
					li.minPos = p
				}
			}
		}
		// range loops: header has a phi with comment "rangeindex"
		for _, in := range h.Instrs {
			if phi, ok := in.(*ssa.Phi); ok && phi.Comment == "rangeindex" {
				li.rangeIdx = phi
			}
		}
		if li.rangeIdx != nil {
			// t4 = phi + 1 ; t5 = t4 < len(x) ; if t5 ...
			if ifi, ok := h.Instrs[len(h.Instrs)-1].(*ssa.If); ok {
				if bo, ok := ifi.Cond.(*ssa.BinOp); ok {
					if c, ok := bo.Y.(*ssa.Call); ok {
						if bi, ok := c.Call.Value.(*ssa.Builtin); ok && bi.Name() == "len" {
							li.rangeVal = c.Call.Args[0]
						}
					}
				}
			}
		}
		e.loops[h] = li
		e.loopList = append(e.loopList, li)
	}
	sort.Slice(e.loopList, func(i, j int) bool {
		a, b := e.loopList[i], e.loopList[j]
		if a.minPos != b.minPos {
			return a.minPos < b.minPos
		}
		if len(a.body) != len(b.body) {
			return len(a.body) > len(b.body)
		}
		return a.header.Index < b.header.Index
	})
	for i, li := range e.loopList {
		li.ord = i + 1
		if e.fc != nil {
			li.spec = e.fc.Loops[li.ord]
		}
	}
	if e.fc != nil {
		for n := range e.fc.Loops {
			if n < 1 || n > len(e.loopList) {
				e.missingLoops = append(e.missingLoops, n)
			}
		}
	}
	return nil
}

type inEdge struct {
	predIdx int
	cond    T
	st      *State
	from    *ssa.BasicBlock
}

// Verify runs the symbolic execution of the function and returns its obligations.
func (e *Eng) Verify() (obls []*Obligation, err error) {
	defer func() {
		if r := recover(); r != nil {
			if u, ok := r.(unsupportedErr); ok {
				err = u
				return
			}
			panic(r)
		}
	}()
	loopMods := map[int]map[string]bool{}
	for pass := 0; pass < 8; pass++ {
		e.collect = true
		e.newNames = false
		next := e.runOnce(loopMods)
		changed := e.newNames
		for k, v := range next {
			if len(v) != len(loopMods[k]) || loopMods[k] == nil {
				changed = true
			}
		}
		loopMods = next
		if !changed && pass > 0 {
			break
		}
	}
	e.collect = false
	e.newNames = false
	e.runOnce(loopMods)
	if e.newNames {
		return nil, fmt.Errorf("heap name set did not converge for %s", e.fn)
	}
	return e.obls, nil
}

func (e *Eng) initialState() *State {
	st := &State{heap: map[string]T{}, reach: "true"}
	for _, n := range e.sortedHeapNames() {
		st.heap[n] = e.heapAxiom(n, e.q.Declare(n+"@0", e.heapNames[n]))
	}
	return st
}

func (e *Eng) runOnce(loopMods map[int]map[string]bool) map[int]map[string]bool {
	e.reset()
	if err := e.findLoops(); err != nil {
		panic(unsupportedErr{err.Error()})
	}
	e.heapTerm(&State{heap: map[string]T{}}, "Alloc", sI64)
	st := e.initialState()
	e.assume(st, app("bvult", st.heap["Alloc"], bvLit(64, 1<<62)))
	e.entry = st.clone()
	fr := &Frame{fn: e.fn, vals: map[ssa.Value]Val{}}
	e.fr = fr
	e.params = nil
	for _, p := range e.fn.Params {
		v := e.freshVal(p.Type(), "p_"+p.Name())
		if pv, ok := v.(*PtrV); ok && len(e.params) == 0 && e.fn.Signature.Recv() != nil {
			pv.NonNil = true
			e.assume(st, tNot(tEq(pv.Ref, null)))
			e.note("method receivers are assumed non-nil")
		}
		e.assume(st, e.wf(p.Type(), v))
		e.assumeValAllocated(fr, st, p.Type(), v)
		fr.vals[p] = v
		e.params = append(e.params, v)
		for i, t := range flat(p.Type(), v) {
			e.modelVars = append(e.modelVars, t)
			e.modelNames[t] = p.Name() + comps(p.Type())[i].suffix
		}
	}
	for _, fv := range e.fn.FreeVars {
		v := e.freshVal(fv.Type(), "fv_"+fv.Name())
		if pv, ok := v.(*PtrV); ok {
			pv.NonNil = true
			e.assume(st, tNot(tEq(pv.Ref, null)))
		}
		e.assumeValAllocated(fr, st, fv.Type(), v)
		fr.vals[fv] = v
		// a captured variable that the enclosing function assigns exactly once (a parameter or a local set
		// before the closure is made) and that only closures reading it share cannot change while the
		// closure runs: it survives havocs like a private local
		if pv, ok := v.(*PtrV); ok && pv.Kind == pCell && e.capturedOnceAssigned(fv) {
			e.privLocals = append(e.privLocals, privLocal{nil, pv})
		}
	}
	if e.fc != nil {
		// captured variables named by the contract become extra (entry-valued) parameters of its clauses
		for _, d := range e.fc.FreeVars {
			found := false
			for _, fv := range e.fn.FreeVars {
				if fv.Name() == d.Name {
					p := fr.vals[fv].(*PtrV)
					cv := e.freshVal(p.Elem, "fvval_"+d.Name)
					e.storePtr(fr, st, p, p.Elem, cv)
					e.assume(st, e.wf(p.Elem, cv))
					e.assumeValAllocated(fr, st, p.Elem, cv)
					e.params = append(e.params, cv)
					found = true
				}
			}
			if !found {
				panic(unsupportedErr{"contract of " + e.fc.Key + " names a captured variable that does not exist: " + d.Name})
			}
		}
	}
	if _, used := e.heapNames["G|holds_objectlock"]; used {
		e.hstore(st, "G|holds_objectlock", nil, types.Typ[types.Bool], T("false"))
	}
	if _, used := e.heapNames["G|holds_globallock"]; used {
		// a function is entered with no package-level lock held (a caller that holds one across a call of a
		// function declared `blocks` fails its own obligation)
		e.hstore(st, "G|holds_globallock", nil, types.Typ[types.Bool], T("false"))
	}
	if e.fc != nil {
		for _, t := range e.fc.Holds {
			e.hstore(st, "G|holds_"+t, nil, types.Typ[types.Bool], T("true"))
		}
		// refinement of interface-method contracts: callers through the interface establish only the
		// interface contract's precondition, so it must imply this method's own
		var hyp []T
		for _, key := range e.fc.Implements {
			ic := e.w.Contracts[key]
			if ic == nil {
				if !e.collect {
					o := e.addObl("contract", "implements["+key+"]", e.allProps(), "", nil, "no interface contract "+key, false)
					o.Unsupported = "implements names an unknown interface contract"
				}
				continue
			}
			for _, c := range ic.Requires {
				hyp = append(hyp, e.evalSpecArgs(c.SpecFn, e.ifaceArgs(), nil, nil, st, st).(T))
			}
		}
		for _, c := range e.fc.Requires {
			t := e.evalClause(c, st, st, nil, nil)
			if len(e.fc.Implements) > 0 {
				e.oblige(st, "implements.requires", c.Label, propsOf(c, e), tImp(tAnd(hyp...), t), nil, "the interface contract's precondition implies: "+c.Expr)
			}
			e.assume(st, t)
		}
		for _, h := range hyp {
			e.assume(st, h)
		}
		for _, c := range e.fc.Assumes {
			t := e.evalClause(c, st, st, nil, nil)
			e.assume(st, t)
			e.note(fmt.Sprintf("assume %s (%s)", c.Expr, c.Reason))
		}
		if len(e.fc.Requires) > 0 {
			e.cover(st, "requires", e.allProps(), nil, "the precondition is satisfiable")
		}
	}
	sort.Ints(e.missingLoops)
	for _, n := range e.missingLoops {
		if !e.collect {
			o := e.addObl("contract", fmt.Sprintf("loop%d", n), e.allProps(), "", nil, fmt.Sprintf("the contract has clauses for loop %d but the function has only %d loops", n, len(e.loopList)), false)
			o.Unsupported = "contract refers to a loop that no longer exists"
		}
	}
	e.assumePkgInvs(st)
	if e.isPkgInit() {
		// the initialiser body runs once: verify the run in which the guard is still clear
		if g, ok := e.fn.Pkg.Members["init$guard"].(*ssa.Global); ok {
			e.hstore(st, "Glob|"+g.String()+"|", nil, types.Typ[types.Bool], T("false"))
		}
	}
	e.entry = st.clone()

	order := rpo(e.fn)
	edgesIn := map[*ssa.BasicBlock][]*inEdge{}
	nextMods := map[int]map[string]bool{}
	for _, b := range order {
		var bst *State
		if b == e.fn.Blocks[0] {
			bst = st
		} else {
			ins := edgesIn[b]
			if len(ins) == 0 {
				continue
			}
			bst = e.merge(fr, b, ins)
			if li := e.loops[b]; li != nil {
				e.loopHead(fr, li, bst, loopMods)
			}
		}
		e.runBlock(fr, b, bst, edgesIn, nextMods)
	}
	e.finish(fr)
	return nextMods
}

// coverProps: vacuity guards are reported under every property the function serves.
func (e *Eng) coverProps() []string {
	set := map[string]bool{}
	if e.fc != nil {
		for p := range e.fc.Properties {
			set[p] = true
		}
		for p := range e.fc.Safe {
			set[p] = true
		}
		for p := range e.fc.Terminates {
			set[p] = true
		}
		for _, c := range append(append([]*Clause{}, e.fc.Requires...), e.fc.Ensures...) {
			for _, p := range strings.Fields(strings.ReplaceAll(c.Property, ",", " ")) {
				set[p] = true
			}
		}
	}
	var ps []string
	for p := range set {
		ps = append(ps, p)
	}
	sort.Strings(ps)
	return ps
}

func (e *Eng) allProps() []string {
	var ps []string
	if e.fc != nil {
		for p := range e.fc.Properties {
			ps = append(ps, p)
		}
	}
	sort.Strings(ps)
	return ps
}

func (e *Eng) assumeValAllocated(fr *Frame, st *State, t types.Type, v Val) {
	switch x := v.(type) {
	case *PtrV:
		if x.Kind != pLocal && x.Kind != pGlobal {
			e.assumeAllocated(fr, st, x.Ref)
		}
	case *SliceV:
		e.assumeAllocated(fr, st, x.B)
	case *MapV:
		e.assumeAllocated(fr, st, x.Ref)
	case *IfaceV:
		e.assumeAllocated(fr, st, x.V)
	case *StructV:
		s := under(t).(*types.Struct)
		for i, f := range x.Fields {
			e.assumeValAllocated(fr, st, s.Field(i).Type(), f)
		}
	}
}

// merge joins the incoming (non-back) edges of block b and evaluates its phis.
func (e *Eng) merge(fr *Frame, b *ssa.BasicBlock, ins []*inEdge) *State {
	st := &State{heap: map[string]T{}}
	if len(ins) == 1 {
		in := ins[0]
		st = in.st.clone()
		r := e.fresh(fmt.Sprintf("reach_b%d", b.Index), sBool)
		if !e.collect {
			e.q.Assert(tEq(r, in.cond))
		}
		st.reach = r
	} else {
		r := e.fresh(fmt.Sprintf("reach_b%d", b.Index), sBool)
		var cs []T
		for _, in := range ins {
			cs = append(cs, in.cond)
		}
		if !e.collect {
			e.q.Assert(tEq(r, tOr(cs...)))
		}
		st.reach = r
		for _, n := range e.sortedHeapNames() {
			first := ins[0].st.heap[n]
			same := true
			for _, in := range ins[1:] {
				if in.st.heap[n] != first {
					same = false
					break
				}
			}
			if same {
				st.heap[n] = first
				continue
			}
			m := e.heapAxiom(n, e.fresh("m|"+n, e.heapNames[n]))
			if !e.collect {
				for _, in := range ins {
					e.q.Assert(tImp(in.cond, tEq(m, in.st.heap[n])))
				}
			}
			st.heap[n] = m
		}
		// defers: union, keeping order of first appearance
		seen := map[*deferred]bool{}
		for _, in := range ins {
			for _, d := range in.st.defers {
				if !seen[d] {
					seen[d] = true
					st.defers = append(st.defers, d)
				}
			}
		}
	}
	// phis
	for _, instr := range b.Instrs {
		phi, ok := instr.(*ssa.Phi)
		if !ok {
			continue
		}
		if li := e.loops[b]; li != nil {
			// loop header: entry value computed here, head value assigned in loopHead
			if li.phiHead == nil {
				li.phiHead = map[*ssa.Phi]Val{}
			}
		}
		var vals []Val
		for _, in := range ins {
			vals = append(vals, e.val(fr, phi.Edges[in.predIdx]))
		}
		fr.vals[phi] = e.mergeVals(phi.Type(), phi.Name(), ins, vals)
	}
	return st
}

func (e *Eng) mergeVals(t types.Type, hint string, ins []*inEdge, vals []Val) Val {
	if len(vals) == 1 {
		return vals[0]
	}
	allSame := true
	f0 := flat(t, vals[0])
	for _, v := range vals[1:] {
		fv := flat(t, v)
		for i := range f0 {
			if fv[i] != f0[i] {
				allSame = false
			}
		}
	}
	if allSame {
		if fv, ok := vals[0].(*FuncV); ok {
			for _, v := range vals[1:] {
				if v.(*FuncV).Fn != fv.Fn {
					return &FuncV{Ref: fv.Ref}
				}
			}
		}
		return vals[0]
	}
	m := e.freshVal(t, "phi_"+hint)
	if pm, ok := m.(*PtrV); ok {
		// keep the pointer kind if all non-nil incoming pointers agree
		var ref *PtrV
		agree := true
		for _, v := range vals {
			p := v.(*PtrV)
			if isNullPtr(p) {
				continue
			}
			if ref == nil {
				ref = p
			} else if ref.Kind != p.Kind || ref.Fam != p.Fam {
				agree = false
			}
		}
		if ref != nil && agree {
			pm.Kind, pm.Fam, pm.Elem = ref.Kind, ref.Fam, ref.Elem
			if ref.Kind == pElem {
				pm.Idx = e.fresh("phi_"+hint+"#idx", sI64)
				if !e.collect {
					for i, in := range ins {
						p := vals[i].(*PtrV)
						if p.Idx != "" {
							e.q.Assert(tImp(in.cond, tEq(pm.Idx, p.Idx)))
						}
					}
				}
			}
			if ref.Kind == pLocal || ref.Kind == pGlobal {
				e.unsound = append(e.unsound, "phi of local/global addresses")
			}
		} else if ref != nil {
			e.unsound = append(e.unsound, "phi merges pointers of different kinds")
		}
	}
	if !e.collect {
		for i, in := range ins {
			e.q.Assert(tImp(in.cond, eqVal(t, m, vals[i])))
		}
	}
	return m
}

// val returns the symbolic value of an SSA value.
func (e *Eng) val(fr *Frame, v ssa.Value) Val {
	if x, ok := fr.vals[v]; ok {
		return x
	}
	switch c := v.(type) {
	case *ssa.Const:
		return e.constVal(c)
	case *ssa.Global:
		return &PtrV{Kind: pGlobal, Fam: "Glob|" + c.String() + "|", Elem: c.Type().(*types.Pointer).Elem(), NonNil: true, Ref: null}
	case *ssa.Function:
		return &FuncV{Fn: c, Ref: e.funcRef(c)}
	case *ssa.Builtin:
		return &FuncV{Ref: null}
	}
	if fr.pure {
		panic(unsupportedErr{fmt.Sprintf("pure evaluation: value %s (%T) of %s not available", v.Name(), v, fr.fn)})
	}
	// value defined in a block not yet executed (should not happen in RPO) or unreachable
	nv := e.freshVal(v.Type(), "undef_"+v.Name())
	fr.vals[v] = nv
	return nv
}

func (e *Eng) funcRef(fn *ssa.Function) T {
	return e.q.Declare("fn|"+fn.String(), sRef)
}

func (e *Eng) constVal(c *ssa.Const) Val {
	t := c.Type()
	if c.Value == nil {
		return zeroVal(t)
	}
	u := under(t)
	if b, ok := u.(*types.Basic); ok {
		switch {
		case b.Info()&types.IsBoolean != 0:
			if c.Value.String() == "true" {
				return T("true")
			}
			return T("false")
		case b.Info()&types.IsString != 0:
			return e.strLit(constantString(c))
		case b.Info()&types.IsInteger != 0:
			w, _ := intInfo(t)
			if i, ok := constInt64(c); ok {
				return bvLit(w, uint64(i))
			}
			return bvLit(w, c.Uint64())
		case b.Info()&types.IsFloat != 0:
			// arithmetic on floats is opaque, but constants are their IEEE bit patterns, so that
			// equality of constants is decided exactly
			f, _ := constant.Float64Val(c.Value)
			return bvLit(64, math.Float64bits(f))
		}
	}
	return zeroVal(t)
}

func (e *Eng) strLit(s string) *StrV {
	r, ok := e.strLits[s]
	if !ok {
		r = e.q.Declare(fmt.Sprintf("strlit!%d", len(e.strLits)), sRef)
		e.strLits[s] = r
		if len(s) <= 400 && !e.collect {
			row := app("select", "StrData", r)
			var cs []T
			for i := 0; i < len(s); i++ {
				cs = append(cs, tEq(app("select", row, i64(int64(i))), bvLit(8, uint64(s[i]))))
			}
			cs = append(cs, tNot(tEq(r, null)))
			e.q.Assert(tAnd(cs...))
		}
	}
	cp := s
	return &StrV{B: r, O: i64(0), L: i64(int64(len(s))), Lit: &cp}
}

func (e *Eng) runBlock(fr *Frame, b *ssa.BasicBlock, st *State, edgesIn map[*ssa.BasicBlock][]*inEdge, nextMods map[int]map[string]bool) {
	addEdge := func(succIdx int, cond T) {
		to := b.Succs[succIdx]
		// which occurrence of b among to.Preds?
		occ := 0
		for i := 0; i < succIdx; i++ {
			if b.Succs[i] == to {
				occ++
			}
		}
		predIdx := -1
		for i, p := range to.Preds {
			if p == b {
				if occ == 0 {
					predIdx = i
					break
				}
				occ--
			}
		}
		est := st.clone()
		// leaving loops: drop tokens held by the loop
		for _, li := range e.loopList {
			if li.body[b] && !li.body[to] && li.spec != nil {
				for _, tok := range li.spec.Holds {
					if li.preState != nil {
						est.heap["G|holds_"+tok] = li.preState.heap["G|holds_"+tok]
					}
				}
			}
		}
		if isBackEdge(b, to) {
			e.backEdge(fr, e.loops[to], predIdx, cond, est, nextMods)
			return
		}
		edgesIn[to] = append(edgesIn[to], &inEdge{predIdx: predIdx, cond: cond, st: est, from: b})
	}
	for _, instr := range b.Instrs {
		e.curInstr = instr
		switch in := instr.(type) {
		case *ssa.Phi:
			// done in merge
		case *ssa.DebugRef:
		case *ssa.If:
			c := e.val(fr, in.Cond).(T)
			addEdge(0, tAnd(st.reach, c))
			addEdge(1, tAnd(st.reach, tNot(c)))
		case *ssa.Jump:
			addEdge(0, st.reach)
		case *ssa.Return:
			var rs []Val
			for _, r := range in.Results {
				rs = append(rs, e.val(fr, r))
			}
			e.returnSites(fr, st, in)
			e.retEdges = append(e.retEdges, retEdge{st.reach, st.clone(), rs})
		case *ssa.Panic:
			if e.fc != nil && len(e.fc.Safe) > 0 {
				var props []string
				for p := range e.fc.Safe {
					props = append(props, p)
				}
				sort.Strings(props)
				e.oblige(st, "safe.panic", "", props, "false", in, "explicit panic is unreachable")
			}
		default:
			e.step(fr, st, instr)
			e.compact(fr, st, instr)
		}
	}
}

const compactLimit = 160

// compact names long terms (heap versions and instruction results) by fresh constants with defining
// equations.  Terms are text: without this, every store or ite is copied into all later formulas and the
// verification conditions grow multiplicatively.
func (e *Eng) compact(fr *Frame, st *State, instr ssa.Instruction) {
	for n, t := range st.heap {
		if len(t) > compactLimit {
			c := e.fresh("h|"+n, e.heapNames[n])
			if !e.collect {
				e.q.Assert(tEq(c, t))
			}
			st.heap[n] = c
		}
	}
	v, ok := instr.(ssa.Value)
	if !ok {
		return
	}
	val, ok := fr.vals[v]
	if !ok || val == nil {
		return
	}
	nameIt := func(t T, sort string) T {
		if len(t) <= compactLimit {
			return t
		}
		c := e.fresh("v_"+v.Name(), sort)
		if !e.collect {
			e.q.Assert(tEq(c, t))
		}
		return c
	}
	switch x := val.(type) {
	case T:
		cs := comps(v.Type())
		if len(cs) == 1 {
			fr.vals[v] = nameIt(x, cs[0].sort)
		}
	case *SliceV:
		fr.vals[v] = &SliceV{nameIt(x.B, sRef), nameIt(x.O, sI64), nameIt(x.L, sI64), nameIt(x.C, sI64)}
	case *StrV:
		if x.Lit == nil {
			fr.vals[v] = &StrV{B: nameIt(x.B, sRef), O: nameIt(x.O, sI64), L: nameIt(x.L, sI64)}
		}
	case *IfaceV:
		nx := *x
		nx.Ty, nx.V = nameIt(x.Ty, sTag), nameIt(x.V, sRef)
		fr.vals[v] = &nx
	case *PtrV:
		if x.Kind != pLocal && x.Kind != pGlobal {
			nx := *x
			nx.Ref = nameIt(x.Ref, sRef)
			if x.Kind == pElem {
				nx.Idx = nameIt(x.Idx, sI64)
			}
			fr.vals[v] = &nx
		}
	}
}

// ---------------------------------------------------------------------------
// loops

func (e *Eng) loopHead(fr *Frame, li *loopInfo, st *State, loopMods map[int]map[string]bool) {
	h := li.header
	li.preState = st.clone()
	// 1. invariant on entry
	entryBind := map[*ssa.Phi]Val{}
	for _, instr := range h.Instrs {
		if phi, ok := instr.(*ssa.Phi); ok {
			entryBind[phi] = fr.vals[phi]
		}
	}
	if li.spec != nil {
		for _, c := range li.spec.Invariants {
			t := e.evalLoopClause(fr, li, c, entryBind, st)
			e.oblige(st, "inv.init", fmt.Sprintf("loop%d%s", li.ord, labelSuffix(c)), propsOf(c, e), t, firstInstr(h), "loop invariant holds on entry: "+c.Expr)
		}
	}
	// 2. havoc
	mods := loopMods[h.Index]
	rowRefine, fieldRefine := e.loopWriteTargets(fr, li)
	// private locals that the loop body does not assign keep their values
	var keepLocals []privLocal
	var keepVals []Val
	for _, pl := range e.privLocals {
		if pl.alloc == nil || !storedInLoop(pl.alloc, li) {
			keepLocals = append(keepLocals, pl)
			keepVals = append(keepVals, e.loadPtr(fr, st, pl.p, pl.p.Elem))
		}
	}
	defer func() {
		for i, pl := range keepLocals {
			e.storePtr(fr, st, pl.p, pl.p.Elem, keepVals[i])
		}
	}()
	for _, n := range e.sortedHeapNames() {
		if strings.HasPrefix(n, "G|holds_") || e.w.stableGlobal(n) {
			continue
		}
		if mods == nil || mods[n] {
			if bases, ok := refineFor(rowRefine, n, "E|"); ok {
				// only rows of loop-invariant slices are written in this loop
				h2 := st.heap[n]
				for _, b := range bases {
					h2 = app("store", h2, b, e.fresh(fmt.Sprintf("lh%d_row|%s", li.ord, n), elemSortOf(e.heapNames[n])))
				}
				st.heap[n] = h2
				continue
			}
			if refs, ok := refineFor(fieldRefine, n, "F|"); ok {
				h2 := st.heap[n]
				for _, r := range refs {
					h2 = app("store", h2, r, e.fresh(fmt.Sprintf("lh%d_fld|%s", li.ord, n), elemSortOf(e.heapNames[n])))
				}
				st.heap[n] = h2
				continue
			}
			if n == "Alloc" {
				na := e.fresh("Alloc_loop", sI64)
				e.assume(st, tAnd(app("bvule", st.heap[n], na), app("bvult", na, bvLit(64, 1<<62))))
				st.heap[n] = na
				continue
			}
			st.heap[n] = e.heapAxiom(n, e.fresh(fmt.Sprintf("lh%d|%s", li.ord, n), e.heapNames[n]))
		}
	}
	for _, instr := range h.Instrs {
		if phi, ok := instr.(*ssa.Phi); ok {
			v := e.freshVal(phi.Type(), fmt.Sprintf("loop%d_%s", li.ord, phiName(phi)))
			// keep pointer kind of the entry value
			if pv, ok := v.(*PtrV); ok {
				if ev, ok := entryBind[phi].(*PtrV); ok && !isNullPtr(ev) {
					pv.Kind, pv.Fam, pv.Elem = ev.Kind, ev.Fam, ev.Elem
					if ev.Kind == pElem {
						pv.Idx = e.fresh("loopidx", sI64)
					}
				}
			}
			e.assume(st, e.wf(phi.Type(), v))
			e.assumeValAllocated(fr, st, phi.Type(), v)
			fr.vals[phi] = v
			li.phiHead[phi] = v
		}
	}
	if li.rangeIdx != nil {
		// the hidden range index is >= -1 and below the length: implied by construction of range loops
		ri := fr.vals[li.rangeIdx].(T)
		e.assume(st, app("bvsle", bvLit(64, ^uint64(0)), ri))
		if li.rangeVal != nil {
			if sv, ok := e.val(fr, li.rangeVal).(*SliceV); ok {
				e.assume(st, app("bvslt", ri, sv.L))
			}
		}
	}
	// 3. assume invariants
	if li.spec != nil {
		for _, tok := range li.spec.Holds {
			e.hstore(st, "G|holds_"+tok, nil, types.Typ[types.Bool], T("true"))
		}
		for _, c := range li.spec.Invariants {
			t := e.evalLoopClause(fr, li, c, li.phiHead, st)
			e.assume(st, t)
		}
		if li.spec.Decreases != nil {
			li.variant0 = e.evalLoopClause(fr, li, li.spec.Decreases, li.phiHead, st)
		}
		if len(li.spec.Invariants) > 0 {
			e.cover(st, fmt.Sprintf("loop%d", li.ord), e.allProps(), firstInstr(h), "loop invariant is satisfiable at the header")
		}
	}
	li.headState = st.clone()
	if li.spec != nil && li.spec.HasMod {
		vars := map[string]Val{}
		for _, vd := range li.spec.Vars {
			vars[vd.Name] = e.loopVar(fr, li, vd.Name, li.phiHead, st)
		}
		li.modTargets = nil
		for _, m := range li.spec.ModSpecs {
			li.modTargets = append(li.modTargets, e.evalModSpecVars(e.fc, m, e.params, vars, st)...)
		}
		li.modReady = true
	}
	if e.fc != nil && len(e.fc.Terminates) > 0 && li.rangeIdx == nil && (li.spec == nil || li.spec.Decreases == nil) {
		var props []string
		for p := range e.fc.Terminates {
			props = append(props, p)
		}
		sort.Strings(props)
		e.oblige(st, "decreases", fmt.Sprintf("loop%d.missing", li.ord), props, "false", firstInstr(h), "a loop of a function declared `terminates` has no variant (range loops over slices are exempt)")
	}
}

func phiName(p *ssa.Phi) string {
	if p.Comment != "" {
		return p.Comment
	}
	return p.Name()
}

func labelSuffix(c *Clause) string {
	if c.Label != "" {
		return "." + c.Label
	}
	return ""
}

func propsOf(c *Clause, e *Eng) []string {
	if c.Property != "" {
		return strings.Fields(strings.ReplaceAll(c.Property, ",", " "))
	}
	return e.allProps()
}

func firstInstr(b *ssa.BasicBlock) ssa.Instruction {
	for _, in := range b.Instrs {
		if in.Pos().IsValid() {
			return in
		}
	}
	if len(b.Instrs) > 0 {
		return b.Instrs[0]
	}
	return nil
}

func (e *Eng) backEdge(fr *Frame, li *loopInfo, predIdx int, cond T, st *State, nextMods map[int]map[string]bool) {
	h := li.header
	// record modified names
	m := nextMods[h.Index]
	if m == nil {
		m = map[string]bool{}
		nextMods[h.Index] = m
	}
	for n, t := range st.heap {
		if li.headState.heap[n] != t {
			m[n] = true
		}
	}
	if li.spec == nil {
		return
	}
	bind := map[*ssa.Phi]Val{}
	for _, instr := range h.Instrs {
		if phi, ok := instr.(*ssa.Phi); ok {
			bind[phi] = e.val(fr, phi.Edges[predIdx])
		}
	}
	est := st.clone()
	est.reach = cond
	for _, c := range li.spec.Invariants {
		t := e.evalLoopClause(fr, li, c, bind, est)
		e.oblige(est, "inv.step", fmt.Sprintf("loop%d%s", li.ord, labelSuffix(c)), propsOf(c, e), t, firstInstr(h), "loop invariant is preserved: "+c.Expr)
	}
	if c := li.spec.Decreases; c != nil {
		v1 := e.evalLoopClause(fr, li, c, bind, est)
		goal := tAnd(app("bvsle", i64(0), li.variant0), app("bvslt", v1, li.variant0))
		e.oblige(est, "decreases", fmt.Sprintf("loop%d", li.ord), propsOf(c, e), goal, firstInstr(h), "loop variant decreases and is bounded below: "+c.Expr)
	}
}

// evalLoopClause evaluates an invariant / variant with the loop-carried variables bound by bind.
func (e *Eng) evalLoopClause(fr *Frame, li *loopInfo, c *Clause, bind map[*ssa.Phi]Val, st *State) T {
	vars := map[string]Val{}
	for _, vd := range li.spec.Vars {
		vars[vd.Name] = e.loopVar(fr, li, vd.Name, bind, st)
	}
	return e.evalClause(c, st, e.entry, nil, vars)
}

func (e *Eng) loopVar(fr *Frame, li *loopInfo, name string, bind map[*ssa.Phi]Val, st *State) Val {
	marked := strings.HasPrefix(name, "\x00") // set by the rename fall-back below: do not fall back twice
	if marked {
		name = name[1:]
	}
	if name == "iter" && li.rangeIdx != nil {
		return app("bvadd", bind[li.rangeIdx].(T), i64(1))
	}
	if name == "rng" && li.rangeVal != nil {
		return e.val(fr, li.rangeVal)
	}
	// iter<n> / rng<n>: the range index and ranged-over value of the enclosing loop with ordinal n (an inner loop's
	// invariant restating what the outer iteration has established so far)
	for _, pfx := range []string{"iter", "rng"} {
		if strings.HasPrefix(name, pfx) && len(name) > len(pfx) {
			if n, err := strconv.Atoi(name[len(pfx):]); err == nil {
				for _, o := range e.loopList {
					if o.ord != n {
						continue
					}
					if o == li {
						return e.loopVar(fr, li, pfx, bind, st)
					}
					if !o.body[li.header] {
						panic(unsupportedErr{fmt.Sprintf("loop %d of %s: %s names a loop that does not enclose it", li.ord, e.fn, name)})
					}
					if pfx == "iter" && o.rangeIdx != nil {
						return app("bvadd", e.val(fr, o.rangeIdx).(T), i64(1))
					}
					if pfx == "rng" && o.rangeVal != nil {
						return e.val(fr, o.rangeVal)
					}
				}
			}
		}
	}
	for _, instr := range li.header.Instrs {
		if phi, ok := instr.(*ssa.Phi); ok && phi.Comment == name {
			return bind[phi]
		}
	}
	if v, ok := e.cellVar(fr, st, name); ok {
		return v
	}
	// not loop-carried: find a DebugRef for a variable of that name whose value dominates the header
	var best ssa.Value
	var bestBlock *ssa.BasicBlock
	for _, b := range e.fn.Blocks {
		if !(b.Dominates(li.header)) || b == li.header {
			continue
		}
		for _, in := range b.Instrs {
			dr, ok := in.(*ssa.DebugRef)
			if !ok {
				continue
			}
			if dr.Object() == nil || dr.Object().Name() != name {
				continue
			}
			if _, isVar := dr.Object().(*types.Var); !isVar {
				continue
			}
			if dr.IsAddr {
				// address-taken variable (captured by a closure): read its current value from memory
				if p, ok := fr.vals[dr.X].(*PtrV); ok {
					return e.loadPtr(fr, st, p, p.Elem)
				}
				continue
			}
			if bestBlock == nil || bestBlock.Dominates(b) {
				best, bestBlock = dr.X, b
			}
		}
	}
	if best != nil {
		return e.val(fr, best)
	}
	for _, p := range e.fn.Params {
		if p.Name() == name {
			return fr.vals[p]
		}
	}
	// the name is gone (a harmless rename?): if exactly one variable in scope of the loop has the type the loop
	// clauses declare for it, take that one and record the substitution
	if !marked {
		var want types.Type
		var cls []*Clause
		cls = append(cls, li.spec.Invariants...)
		if li.spec.Decreases != nil {
			cls = append(cls, li.spec.Decreases)
		}
		for _, c := range cls {
			if fn := e.w.specFn(c.SpecFn); fn != nil {
				for _, p := range fn.Params {
					if p.Name() == name {
						want = p.Type()
					}
				}
			}
		}
		if want != nil {
			declared := map[string]bool{}
			for _, vd := range li.spec.Vars {
				declared[vd.Name] = true
			}
			cands := map[string]bool{}
			for _, instr := range li.header.Instrs {
				if phi, ok := instr.(*ssa.Phi); ok && phi.Comment != "" && types.Identical(phi.Type(), want) && !declared[phi.Comment] {
					cands[phi.Comment] = true
				}
			}
			for _, b := range e.fn.Blocks {
				if !(b.Dominates(li.header)) && !li.body[b] {
					continue
				}
				for _, in := range b.Instrs {
					if dr, ok := in.(*ssa.DebugRef); ok && dr.Object() != nil && !dr.IsAddr {
						if vo, isVar := dr.Object().(*types.Var); isVar && types.Identical(vo.Type(), want) && !declared[vo.Name()] && (b.Dominates(li.header) && b != li.header) {
							cands[vo.Name()] = true
						}
					}
				}
			}
			if len(cands) == 1 {
				for other := range cands {
					e.note(fmt.Sprintf("loop variable %q of loop %d of %s no longer exists; the only undeclared variable of type %s in scope, %q, was taken for it", name, li.ord, fnDisplayName(e.fn), types.TypeString(want, nil), other))
					return e.loopVar(fr, li, "\x00"+other, bind, st)
				}
			}
		}
	}
	panic(unsupportedErr{fmt.Sprintf("loop %d of %s: cannot resolve variable %q", li.ord, e.fn, name)})
}

// ---------------------------------------------------------------------------
// function exit

func (e *Eng) finish(fr *Frame) {
	if len(e.retEdges) == 0 {
		return
	}
	var ins []*inEdge
	for _, r := range e.retEdges {
		ins = append(ins, &inEdge{cond: r.cond, st: r.st})
	}
	st := &State{heap: map[string]T{}}
	var results []Val
	res := e.fn.Signature.Results()
	if len(ins) == 1 {
		st = ins[0].st.clone()
		results = e.retEdges[0].results
	} else {
		r := e.fresh("reach_exit", sBool)
		var cs []T
		for _, in := range ins {
			cs = append(cs, in.cond)
		}
		if !e.collect {
			e.q.Assert(tEq(r, tOr(cs...)))
		}
		st.reach = r
		for _, n := range e.sortedHeapNames() {
			first := ins[0].st.heap[n]
			same := true
			for _, in := range ins[1:] {
				if in.st.heap[n] != first {
					same = false
				}
			}
			if same {
				st.heap[n] = first
				continue
			}
			m := e.heapAxiom(n, e.fresh("exit|"+n, e.heapNames[n]))
			if !e.collect {
				for _, in := range ins {
					e.q.Assert(tImp(in.cond, tEq(m, in.st.heap[n])))
				}
			}
			st.heap[n] = m
		}
		for i := 0; i < res.Len(); i++ {
			var vs []Val
			for _, r := range e.retEdges {
				vs = append(vs, r.results[i])
			}
			results = append(results, e.mergeVals(res.At(i).Type(), fmt.Sprintf("result%d", i), ins, vs))
		}
	}
	if e.fc == nil {
		return
	}
	for i := 0; i < res.Len(); i++ {
		for j, t := range flat(res.At(i).Type(), results[i]) {
			_ = j
			_ = t
		}
	}
	for _, c := range e.fc.Ensures {
		t := e.evalClause(c, st, e.entry, results, nil)
		lab := c.Label
		e.oblige(st, "ensures", lab, propsOf(c, e), t, nil, "postcondition: "+c.Expr)
		if !e.collect && len(e.obls) > 0 && e.obls[len(e.obls)-1].Kind == "ensures" {
			e.obls[len(e.obls)-1].SpecFn = c.SpecFn
		}
	}
	for _, key := range e.fc.Implements {
		ic := e.w.Contracts[key]
		if ic == nil {
			continue
		}
		for _, c := range ic.Ensures {
			if strings.HasPrefix(c.Label, "ghost_") {
				// history ghosts (call counters) are advanced by the call itself, not by the callee's code
				continue
			}
			t := e.evalSpecArgs(c.SpecFn, e.ifaceArgs(), results, nil, st, e.entry).(T)
			props := strings.Fields(strings.ReplaceAll(c.Property, ",", " "))
			if len(props) == 0 {
				props = e.allProps()
			}
			e.oblige(st, "ensures", "implements["+key+"]"+labelSuffix(c), props, t, nil, "postcondition of the interface contract: "+c.Expr)
		}
	}
	if e.fc.HasMod {
		e.frameObligations(st)
	}
	if e.isPkgInit() {
		e.pkgInvObligations(st)
		e.immutableObligations(st)
	}
	// Channel balance: every send on a channel made here (by this function or by the goroutines it started,
	// as promised by their contracts) is matched by buffer space or by a receive on every path to the
	// return; otherwise a sender stays blocked for ever.
	for _, lc := range e.localChans {
		sends := tSel(e.heapTerm(st, "G|chansends", arrSort(sRef, sI64)), lc.ref)
		recv := tSel(e.heapTerm(st, "G|chanrecv", arrSort(sRef, sI64)), lc.ref)
		capT := tSel(e.heapTerm(st, "G|chancap", arrSort(sRef, sI64)), lc.ref)
		e.oblige(st, "chan_balance", "", e.allProps(), app("bvsle", sends, app("bvadd", capT, recv)), lc.in, "sends on the channel made here do not exceed its capacity plus the receives performed before returning")
	}
	e.cover(st, "exit", e.coverProps(), nil, "some return is reachable under the assumed callee contracts and invariants")
	if !e.collect {
		for _, nc := range e.fc.NoCalls {
			if !e.noCallHit[nc] {
				// no such call on any path: discharged by construction (and recorded, so that it is in the baseline)
				e.addObl("nocall", nc.Label, propsOf(nc, e), "", nil, "this function never calls "+nc.Expr+" (no such call on any explored path)", true)
			}
		}
		for _, ss := range e.fc.Sites {
			if !e.siteHit[ss] {
				o := e.addObl("contract", fmt.Sprintf("callsite.%s#%d", ss.Callee, ss.N), propsOf(ss.Clause, e), "", nil, "the call this clause is attached to was not found (or is unreachable)", false)
				o.Unsupported = "callsite clause matches no call"
			}
		}
	}
}


// elemSortOf returns the element sort of an (Array idx el) sort.
func elemSortOf(sort string) string {
	inner := sort[len("(Array ") : len(sort)-1]
	if strings.HasPrefix(inner, "(") {
		k := matchParen(inner, 0)
		return strings.TrimSpace(inner[k+1:])
	}
	k := strings.Index(inner, " ")
	return strings.TrimSpace(inner[k+1:])
}

func refineFor(m map[string][]T, name, prefix string) ([]T, bool) {
	if m == nil || !strings.HasPrefix(name, prefix) {
		return nil, false
	}
	// family = name without component suffix
	for fam, ts := range m {
		if name == fam || strings.HasPrefix(name, fam+"#") || strings.HasPrefix(name, fam+".") || strings.HasPrefix(name, fam+"[") {
			if ts == nil {
				return nil, false
			}
			return ts, true
		}
	}
	return nil, false
}

// loopWriteTargets inspects the loop body: if every write to an element family (E|T) goes through
// IndexAddr on a slice value defined outside the loop, and every write to a field family through
// FieldAddr on a pointer defined outside the loop, the loop havoc can be restricted to those rows /
// objects.  Any call that may write memory, append or copy disables the refinement for what it may touch.
func (e *Eng) loopWriteTargets(fr *Frame, li *loopInfo) (rows map[string][]T, fields map[string][]T) {
	rows = map[string][]T{}
	fields = map[string][]T{}
	inLoop := func(v ssa.Value) bool {
		if in, ok := v.(ssa.Instruction); ok {
			return li.body[in.Block()]
		}
		return false
	}
	kill := func(m map[string][]T, fam string) { m[fam] = nil }
	add := func(m map[string][]T, fam string, t T) {
		if cur, ok := m[fam]; ok && cur == nil {
			return
		}
		for _, x := range m[fam] {
			if x == t {
				return
			}
		}
		m[fam] = append(m[fam], t)
	}
	for b := range li.body {
		for _, instr := range b.Instrs {
			switch in := instr.(type) {
			case *ssa.Store:
				switch a := in.Addr.(type) {
				case *ssa.IndexAddr:
					fam := ""
					var base T
					okb := false
					if sl, ok := under(a.X.Type()).(*types.Slice); ok {
						fam = "E|" + elemKey(sl.Elem())
						if !inLoop(a.X) {
							if sv, ok := fr.vals[a.X].(*SliceV); ok {
								base, okb = sv.B, true
							}
						}
						if _, isStruct := under(sl.Elem()).(*types.Struct); isStruct {
							return nil, nil
						}
					} else {
						return nil, nil
					}
					if okb {
						add(rows, fam, base)
					} else {
						kill(rows, fam)
					}
				case *ssa.FieldAddr:
					stt := a.X.Type().Underlying().(*types.Pointer).Elem()
					s := under(stt).(*types.Struct)
					fam := structFam(stt, fieldName(s, a.Field))
					if !inLoop(a.X) {
						if pv, ok := fr.vals[a.X].(*PtrV); ok && pv.Kind == pStruct {
							add(fields, fam, pv.Ref)
							continue
						}
					}
					kill(fields, fam)
				default:
					// stores through other pointers: cells and globals are separate families; be conservative
					if _, isAlloc := in.Addr.(*ssa.Alloc); !isAlloc {
						if _, isGlobal := in.Addr.(*ssa.Global); !isGlobal {
							return nil, nil
						}
					}
				}
			case *ssa.MapUpdate:
			case *ssa.Call:
				if bi, ok := in.Call.Value.(*ssa.Builtin); ok {
					switch bi.Name() {
					case "append", "copy":
						if sl, ok := under(in.Call.Args[0].Type()).(*types.Slice); ok {
							kill(rows, "E|"+elemKey(sl.Elem()))
						}
					}
					continue
				}
				if fn, ok := in.Call.Value.(*ssa.Function); ok && !in.Call.IsInvoke() {
					if fc := e.w.Contracts[fn.String()]; fc != nil && fc.HasMod && len(fc.ModSpecs) == 0 {
						continue // pure callee
					}
					if isSpecGenFn(e.w, fn) {
						continue
					}
					if fn.Pkg == nil || e.w.SsaPkgs[fn.Pkg.Pkg.Path()] == nil {
						if externPolicy(fn) == "pure" && e.w.Contracts[fn.String()] == nil {
							continue
						}
					}
				}
				return nil, nil
			case *ssa.Go, *ssa.Defer, *ssa.RunDefers, *ssa.Send, *ssa.Select:
				return nil, nil
			}
		}
	}
	return rows, fields
}


func (e *Eng) isPkgInit() bool {
	return e.fn.Name() == "init" && e.fn.Signature.Recv() == nil && e.fn.Parent() == nil && e.fn.Pkg != nil && e.fn.Pkg.Func("init") == e.fn
}

func (e *Eng) pkgInvs() (*ContractFile, string) {
	if e.fn.Pkg == nil {
		if e.fn.Parent() != nil && e.fn.Parent().Pkg != nil {
			p := e.fn.Parent().Pkg.Pkg.Path()
			return e.w.FileOfPkg[p], p
		}
		return nil, ""
	}
	p := e.fn.Pkg.Pkg.Path()
	return e.w.FileOfPkg[p], p
}

// assumePkgInvs: the package invariants of every /repo package hold at the entry of every function
// except a package initialiser, which may only assume those of the packages it imports (initialised before it).
func (e *Eng) assumePkgInvs(st *State) {
	_, own := e.pkgInvs()
	if isSpecGenFn(e.w, e.fn) {
		return
	}
	var paths []string
	for p := range e.w.FileOfPkg {
		paths = append(paths, p)
	}
	sort.Strings(paths)
	for _, path := range paths {
		cf := e.w.FileOfPkg[path]
		if len(cf.PkgInvs) == 0 {
			continue
		}
		if e.isPkgInit() {
			if path == own || !e.imports(own, path) {
				continue
			}
		}
		for _, c := range cf.PkgInvs {
			fn := e.w.specFn(path + "::" + c.SpecFn)
			if fn == nil {
				continue
			}
			if c.Kind == "fact" {
				if r, ok := e.w.FactResult[path+"::"+c.SpecFn]; !ok || r.status != "discharged" {
					continue // a fact that did not evaluate to true is reported, never assumed
				}
				if strings.HasPrefix(c.Label, "bounded_") {
					continue // an exhaustive evaluation over a finite domain: reported, not used as an assumption
				}
			}
			v, _, _ := e.evalPure(fn, nil, nil, nil, nil, st, st, 0)
			e.assume(st, v.(T))
			e.note("package invariant (proved for the package initialiser; the variables are never written elsewhere): " + c.Expr)
		}
	}
}

// imports reports whether package a (transitively) imports package b.
func (e *Eng) imports(a, b string) bool {
	var pa *packages.Package
	for _, p := range e.w.Pkgs {
		if p.PkgPath == a {
			pa = p
		}
	}
	if pa == nil {
		return false
	}
	seen := map[string]bool{}
	var walk func(p *packages.Package) bool
	walk = func(p *packages.Package) bool {
		if seen[p.PkgPath] {
			return false
		}
		seen[p.PkgPath] = true
		for path, ip := range p.Imports {
			if path == b || walk(ip) {
				return true
			}
		}
		return false
	}
	return walk(pa)
}

// pkgInvObligations: init establishes the invariants, and no other function of the package stores
// to the package-level variables they mention.
func (e *Eng) pkgInvObligations(st *State) {
	cf, path := e.pkgInvs()
	if cf == nil {
		return
	}
	for _, c := range cf.PkgInvs {
		fn := e.w.specFn(path + "::" + c.SpecFn)
		if fn == nil {
			continue
		}
		var v Val = T("true")
		if !(c.Kind == "fact" && strings.HasPrefix(c.Label, "bounded_")) {
			v, _, _ = e.evalPure(fn, nil, nil, nil, nil, st, st, 0)
		}
		if c.Kind == "fact" {
			if !e.collect {
				o := e.addObl("fact", c.Label, propsOf(c, e), "", nil, "closed fact about the initialised package, evaluated on the real code: "+c.Expr, false)
				o.EvalPkg, o.EvalFn = path, c.SpecFn
				r, ok := e.w.FactResult[path+"::"+c.SpecFn]
				if !ok {
					r = factRes{"unknown", "fact was not evaluated", 0}
				}
				o.Status, o.Raw, o.TimeMs, o.Solver = r.status, r.raw, r.ms, "go-eval(real code, no inputs)"
				if strings.HasPrefix(c.Label, "bounded_") {
					o.Bounded = "exhaustive evaluation of the real code over the finite domain written in the clause; not a proof beyond that domain"
				}
				if r.status == "failed" {
					o.Model = map[string]string{}
				}
			}
		} else {
			e.oblige(st, "pkginv.init", c.Label, propsOf(c, e), v.(T), nil, "package initialiser establishes: "+c.Expr)
		}
		if c.Kind == "fact" && strings.HasPrefix(c.Label, "bounded_") {
			continue // never assumed, so the stability of the variables it reads does not matter
		}
		// stability
		globals := map[*ssa.Global]bool{}
		var scan func(f *ssa.Function, depth int)
		seen := map[*ssa.Function]bool{}
		scan = func(f *ssa.Function, depth int) {
			if seen[f] || depth > 6 {
				return
			}
			seen[f] = true
			for _, b := range f.Blocks {
				for _, in := range b.Instrs {
					for _, op := range in.Operands(nil) {
						if g, ok := (*op).(*ssa.Global); ok {
							globals[g] = true
						}
						if cf2, ok := (*op).(*ssa.Function); ok && isSpecGenFn(e.w, cf2) {
							scan(cf2, depth+1)
						}
					}
				}
			}
			for _, af := range f.AnonFuncs {
				scan(af, depth+1)
			}
		}
		scan(fn, 0)
		written := ""
		var members []ssa.Member
		for _, sp := range e.w.SsaPkgs {
			for _, m := range sp.Members {
				members = append(members, m)
			}
		}
		for _, m := range members {
			check := func(f *ssa.Function) {}
			var walk func(f *ssa.Function)
			walk = func(f *ssa.Function) {
				if f == e.fn || isSpecGenFn(e.w, f) {
					return
				}
				for _, b := range f.Blocks {
					for _, in := range b.Instrs {
						if s, ok := in.(*ssa.Store); ok {
							if g, ok := s.Addr.(*ssa.Global); ok && globals[g] {
								written = g.Name() + " in " + f.Name()
							}
						}
						// element-level stability for slice-typed variables: the loaded slice may only be read
						if u, ok := in.(*ssa.UnOp); ok {
							if g, ok := u.X.(*ssa.Global); ok && globals[g] {
								if _, isSlice := under(u.Type()).(*types.Slice); isSlice && !readOnlyUses(u) {
									written = "elements of " + g.Name() + " may be written in " + f.Name()
								}
							}
						}
						// address of the global escapes (other than to a load)
						for _, op := range in.Operands(nil) {
							if g, ok := (*op).(*ssa.Global); ok && globals[g] {
								switch x := in.(type) {
								case *ssa.UnOp, *ssa.Store, *ssa.DebugRef:
									_ = x
								default:
									written = "&" + g.Name() + " escapes in " + f.Name()
								}
							}
						}
					}
				}
				for _, af := range f.AnonFuncs {
					walk(af)
				}
			}
			_ = check
			switch x := m.(type) {
			case *ssa.Function:
				walk(x)
			case *ssa.Type:
				for _, t := range []types.Type{x.Type(), types.NewPointer(x.Type())} {
					ms := e.w.Prog.MethodSets.MethodSet(t)
					for i := 0; i < ms.Len(); i++ {
						if f := e.w.Prog.MethodValue(ms.At(i)); f != nil && f.Pkg != nil && e.w.SsaPkgs[f.Pkg.Pkg.Path()] != nil {
							walk(f)
						}
					}
				}
			}
		}
		goal := T("true")
		if written != "" {
			goal = "false"
		}
		e.oblige(st, "pkginv.stable", c.Label, propsOf(c, e), goal, nil, "no function other than init writes the package variables of: "+c.Expr+" "+written)
	}
}


// readOnlyUses: the slice value v is only ranged over, indexed for loading, measured or compared.
func readOnlyUses(v ssa.Value) bool {
	refs := v.Referrers()
	if refs == nil {
		return true
	}
	for _, r := range *refs {
		switch x := r.(type) {
		case *ssa.DebugRef, *ssa.Range, *ssa.BinOp, *ssa.Index, *ssa.Lookup:
		case *ssa.IndexAddr:
			if rr := x.Referrers(); rr != nil {
				for _, r2 := range *rr {
					switch y := r2.(type) {
					case *ssa.UnOp, *ssa.DebugRef:
					case *ssa.FieldAddr:
						// &s[i].f : allow loads only
						if r3 := y.Referrers(); r3 != nil {
							for _, z := range *r3 {
								if _, ok := z.(*ssa.UnOp); !ok {
									if _, ok := z.(*ssa.DebugRef); !ok {
										return false
									}
								}
							}
						}
					default:
						return false
					}
				}
			}
		case *ssa.Call:
			if b, ok := x.Call.Value.(*ssa.Builtin); ok && (b.Name() == "len" || b.Name() == "cap") {
				continue
			}
			return false
		case *ssa.Phi:
			if !readOnlyUses(x) {
				return false
			}
		default:
			return false
		}
	}
	return true
}


// immutableObligations: for every `immutable Type.field` of this package, scan every function of every
// /repo package: a store to the field (or of a whole value of the struct type) must go into an object
// allocated by the storing function itself, and the field's address may only be loaded from.
func (e *Eng) immutableObligations(st *State) {
	cf, path := e.pkgInvs()
	if cf == nil {
		return
	}
	for _, c := range cf.Immutables {
		dot := strings.Index(c.Expr, ".")
		tn, fname := c.Expr[:dot], c.Expr[dot+1:]
		sp := e.w.SsaPkgs[path]
		bad := ""
		var named types.Type
		if sp != nil {
			if m, ok := sp.Members[tn].(*ssa.Type); ok {
				named = m.Type()
			}
		}
		if named == nil {
			bad = "no such type"
		}
		isT := func(t types.Type) bool { return named != nil && types.Identical(types.Unalias(t), named) }
		freshAlloc := func(v ssa.Value) bool {
			_, ok := v.(*ssa.Alloc)
			return ok
		}
		var walk func(f *ssa.Function)
		walk = func(f *ssa.Function) {
			for _, b := range f.Blocks {
				for _, in := range b.Instrs {
					switch x := in.(type) {
					case *ssa.FieldAddr:
						pt, ok := under(x.X.Type()).(*types.Pointer)
						if !ok || !isT(pt.Elem()) {
							continue
						}
						if fieldName(under(pt.Elem()).(*types.Struct), x.Field) != fname {
							continue
						}
						for _, r := range *x.Referrers() {
							switch y := r.(type) {
							case *ssa.UnOp:
								// load
							case *ssa.Store:
								if y.Addr != ssa.Value(x) || !freshAlloc(x.X) {
									bad = "stored in " + f.String()
								}
							case *ssa.DebugRef:
							default:
								bad = "address escapes in " + f.String()
							}
						}
					case *ssa.Store:
						if isT(x.Val.Type()) && !freshAlloc(x.Addr) {
							bad = "whole value stored in " + f.String()
						}
					}
				}
			}
			for _, af := range f.AnonFuncs {
				walk(af)
			}
		}
		var paths []string
		for p := range e.w.SsaPkgs {
			paths = append(paths, p)
		}
		sort.Strings(paths)
		for _, p := range paths {
			pkg := e.w.SsaPkgs[p]
			for _, m := range pkg.Members {
				switch x := m.(type) {
				case *ssa.Function:
					walk(x)
				case *ssa.Type:
					for _, t := range []types.Type{x.Type(), types.NewPointer(x.Type())} {
						ms := e.w.Prog.MethodSets.MethodSet(t)
						for i := 0; i < ms.Len(); i++ {
							if f := e.w.Prog.MethodValue(ms.At(i)); f != nil && f.Pkg == pkg && f.Synthetic == "" {
								walk(f)
							}
						}
					}
				}
			}
		}
		goal := T("true")
		if bad != "" {
			goal = "false"
		}
		e.oblige(st, "immutable", c.Label, propsOf(c, e), goal, nil, "field "+c.Expr+" is written only while its object is being constructed "+bad)
	}
}


// ifaceArgs: this method's parameters as seen by a contract written for the interface method: the
// receiver boxed into an interface value of its dynamic type.
func (e *Eng) ifaceArgs() []Val {
	if len(e.params) == 0 || e.fn.Signature.Recv() == nil {
		return e.params
	}
	rt := e.fn.Signature.Recv().Type()
	iv := &IfaceV{Ty: e.typeTag(rt), Boxed: e.params[0], BoxedT: rt}
	iv.V = refOf(e.params[0])
	return append([]Val{iv}, e.params[1:]...)
}


// storedInLoop: does a block of the loop store into the local variable (directly or into one of its fields)?
func storedInLoop(a *ssa.Alloc, li *loopInfo) bool {
	var addrStored func(v ssa.Value, depth int) bool
	addrStored = func(v ssa.Value, depth int) bool {
		if depth > 4 || v.Referrers() == nil {
			return true
		}
		for _, r := range *v.Referrers() {
			switch x := r.(type) {
			case *ssa.Store:
				if x.Addr == v && (li.body[x.Block()] || x.Block() == li.header) {
					return true
				}
			case *ssa.FieldAddr:
				if addrStored(x, depth+1) {
					return true
				}
			}
		}
		return false
	}
	return addrStored(a, 0)
}


// returnSites: `callsite return#n (locals) require E` attaches an assertion to the n-th return statement
// (in source order) of the function, over the locals visible there.
func (e *Eng) returnSites(fr *Frame, st *State, ret *ssa.Return) {
	if fr.pure || e.fc == nil || len(e.fc.Sites) == 0 || fr.fn != e.fn {
		return
	}
	var all []*ssa.Return
	for _, b := range e.fn.Blocks {
		for _, in := range b.Instrs {
			if r, ok := in.(*ssa.Return); ok {
				all = append(all, r)
			}
		}
	}
	// source order; the implicit return at the end of the body (no position) comes last
	sort.SliceStable(all, func(i, j int) bool {
		pi, pj := all[i].Pos(), all[j].Pos()
		if !pi.IsValid() {
			return false
		}
		if !pj.IsValid() {
			return true
		}
		return pi < pj
	})
	ord := 0
	for i, r := range all {
		if r == ret {
			ord = i + 1
		}
	}
	for _, ss := range e.fc.Sites {
		if ss.Callee != "return" || ss.N != ord || ss.Kind != "require" {
			continue
		}
		if e.siteHit == nil {
			e.siteHit = map[*SiteSpec]bool{}
		}
		e.siteHit[ss] = true
		vars := map[string]Val{}
		for _, vd := range ss.Vars {
			if v, ok := e.loopSiteVar(fr, ret, vd.Name); ok {
				vars[vd.Name] = v
				continue
			}
			// ret0, ret1, ...: the values this return statement returns
			if strings.HasPrefix(vd.Name, "ret") {
				if i, err := strconv.Atoi(vd.Name[3:]); err == nil && i >= 0 && i < len(ret.Results) {
					vars[vd.Name] = e.val(fr, ret.Results[i])
					continue
				}
			}
			vars[vd.Name] = e.localAtTyped(fr, st, ret, vd.Name, ss.Clause)
		}
		t := e.evalClause(ss.Clause, st, e.entry, nil, vars)
		e.oblige(st, "assert", ss.Clause.Label, propsOf(ss.Clause, e), t, ret, fmt.Sprintf("assertion at return #%d: %s", ord, ss.Clause.Expr))
		e.assume(st, t)
	}
}


// capturedOnceAssigned: the free variable is bound, at every closure creation in the parent, to an Alloc
// of the parent that is stored exactly once and whose address is otherwise only loaded or captured by
// closures that only read it.
func (e *Eng) capturedOnceAssigned(fv *ssa.FreeVar) bool {
	parent := e.fn.Parent()
	if parent == nil {
		return false
	}
	idx := -1
	for i, f := range e.fn.FreeVars {
		if f == fv {
			idx = i
		}
	}
	if idx < 0 {
		return false
	}
	if !readOnlyCapture(fv, 0) {
		return false
	}
	found := false
	for _, b := range parent.Blocks {
		for _, in := range b.Instrs {
			mc, ok := in.(*ssa.MakeClosure)
			if !ok || mc.Fn != ssa.Value(e.fn) || idx >= len(mc.Bindings) {
				continue
			}
			a, ok := mc.Bindings[idx].(*ssa.Alloc)
			if !ok || !addrUsesPrivate(a, 0) {
				return false
			}
			stores := 0
			for _, r := range *a.Referrers() {
				if st, ok := r.(*ssa.Store); ok && st.Addr == ssa.Value(a) {
					stores++
				}
			}
			if stores != 1 {
				return false
			}
			found = true
		}
	}
	return found
}
