package main

import (
	"bytes"
	"fmt"
	"go/ast"
	"go/build"
	"go/parser"
	"go/printer"
	"go/token"
	"go/types"
	"os"
	"path/filepath"
	"regexp"
	"sort"
	"strings"
	"sync"

	"golang.org/x/tools/go/packages"
	"golang.org/x/tools/go/ssa"
	"golang.org/x/tools/go/ssa/ssautil"
)

const contractFileName = "zz_verif_contracts.go"
const specGenFileName = "zz_verif_spec_gen.go"

// SpecArg tells the engine what to pass for one parameter of a generated spec function.
type SpecArg struct {
	Role string // "param" "result" "old" "var"
	Idx  int
	Name string
	Type string
}

type SpecFnInfo struct {
	Name string
	Args []SpecArg
}

type sigInfo struct {
	params  []VarDecl // receiver first
	results []VarDecl
	imports map[string]string // alias -> path (file imports)
}

type World struct {
	RepoDir   string
	Files     []*ContractFile
	Contracts map[string]*FuncContract // key: full ssa name for extern/iface; pkgpath + "." + Key for in-repo
	SpecInfo  map[string]*SpecFnInfo   // spec fn name -> info
	Prog      *ssa.Program
	Pkgs      []*packages.Package
	SsaPkgs   map[string]*ssa.Package // by pkg path
	Fset      *token.FileSet
	GenFiles  map[string][]byte
	FnOf      map[*FuncContract]*ssa.Function
	ByFn      map[*ssa.Function]*FuncContract
	PkgOfFile map[*ContractFile]string
	Ghosts    map[string]*GhostDecl
	Unresolved []string
	UnresolvedFC []*FuncContract
	Sigs      map[*FuncContract]*sigInfo
	specFns   map[string]*ssa.Function
	TrustedPkgDir string
	FileOfPkg     map[string]*ContractFile
	stable        map[string]bool
	stableOnce    sync.Once
	immut         map[string]bool
	FactResult    map[string]factRes // pkgpath::specfn -> evaluation of a closed fact on the real code
	immutOnce     sync.Once
	named         map[string]types.Type
	namedOnce     sync.Once
}

func parseModEntry(m string) *ModSpec {
	m = strings.TrimSpace(m)
	ms := &ModSpec{Text: m}
	switch {
	case m == "*":
		ms.Kind = "all"
	case strings.HasPrefix(m, "heap(") && strings.HasSuffix(m, ")"):
		// heap(<pkgpath>.<Type>.<field>): that field of any object of the type
		in := m[5 : len(m)-1]
		i := strings.LastIndex(in, ".")
		ms.Kind, ms.Name = "heap", "F|"+in[:i]+"|"+in[i+1:]
	case strings.HasPrefix(m, "G_"):
		i := strings.Index(m, "(")
		if i < 0 {
			ms.Kind, ms.Name = "ghost0", m
			break
		}
		ms.Name = m[:i]
		arg := strings.TrimSpace(m[i+1 : len(m)-1])
		if arg == "" {
			ms.Kind = "ghost0"
		} else {
			ms.Kind, ms.Expr = "ghost", arg
		}
	case strings.HasPrefix(m, "*"):
		ms.Kind, ms.Expr = "deref", m[1:]
	case strings.HasSuffix(m, ".*"):
		// every field of the object behind a pointer or interface value
		ms.Kind, ms.Expr = "object", strings.TrimSuffix(m, ".*")
	case strings.HasSuffix(m, "[*]"):
		ms.Kind, ms.Expr = "elems", strings.TrimSuffix(m, "[*]")
	case strings.Contains(m, "."):
		i := strings.LastIndex(m, ".")
		ms.Kind, ms.Expr, ms.Name = "field", m[:i], m[i+1:]
	default:
		ms.Kind, ms.Name = "global", m
	}
	return ms
}

func findContractFiles(root string) []string {
	var out []string
	filepath.Walk(root, func(p string, info os.FileInfo, err error) error {
		if err != nil {
			return nil
		}
		if info.IsDir() && (info.Name() == ".git" || info.Name() == "testdata" || info.Name() == "node_modules") {
			return filepath.SkipDir
		}
		if !info.IsDir() && info.Name() == contractFileName {
			out = append(out, p)
		}
		return nil
	})
	sort.Strings(out)
	return out
}

func exprString(fset *token.FileSet, e ast.Expr) string {
	var b bytes.Buffer
	printer.Fprint(&b, fset, e)
	return b.String()
}

// parsePackageDir parses the non-test Go files of a directory that match the build context (tag verif).
func parsePackageDir(fset *token.FileSet, dir string) (map[string]*ast.File, string, error) {
	ctx := build.Default
	ctx.BuildTags = []string{"verif"}
	ents, err := os.ReadDir(dir)
	if err != nil {
		if os.IsNotExist(err) {
			return map[string]*ast.File{}, filepath.Base(dir), nil
		}
		return nil, "", err
	}
	files := map[string]*ast.File{}
	pkgName := ""
	for _, e := range ents {
		n := e.Name()
		if e.IsDir() || !strings.HasSuffix(n, ".go") || strings.HasSuffix(n, "_test.go") || n == specGenFileName {
			continue
		}
		ok, err := ctx.MatchFile(dir, n)
		if err != nil || !ok {
			continue
		}
		f, err := parser.ParseFile(fset, filepath.Join(dir, n), nil, parser.SkipObjectResolution)
		if err != nil {
			return nil, "", err
		}
		files[n] = f
		if n != contractFileName || pkgName == "" {
			pkgName = f.Name.Name
		}
	}
	return files, pkgName, nil
}

func fieldListDecls(fset *token.FileSet, fl *ast.FieldList, prefix string, start int) []VarDecl {
	var out []VarDecl
	if fl == nil {
		return out
	}
	n := start
	for _, f := range fl.List {
		t := exprString(fset, f.Type)
		if el, ok := f.Type.(*ast.Ellipsis); ok {
			t = "[]" + exprString(fset, el.Elt)
		}
		if len(f.Names) == 0 {
			out = append(out, VarDecl{fmt.Sprintf("%s%d", prefix, n), t})
			n++
			continue
		}
		for _, nm := range f.Names {
			name := nm.Name
			if name == "_" {
				name = fmt.Sprintf("%s%d", prefix, n)
			}
			out = append(out, VarDecl{name, t})
			n++
		}
	}
	return out
}

func nameResults(rs []VarDecl) []VarDecl {
	// unnamed results: result, result1, ... ; a trailing unnamed error is "err"
	out := make([]VarDecl, len(rs))
	k := 0
	for i, r := range rs {
		out[i] = r
		if strings.HasPrefix(r.Name, "\x00") {
			if r.Type == "error" && i == len(rs)-1 {
				out[i].Name = "err"
			} else if k == 0 {
				out[i].Name = "result"
				k++
			} else {
				out[i].Name = fmt.Sprintf("result%d", k)
				k++
			}
		}
	}
	return out
}

func parseSigText(sig string) (*sigInfo, error) {
	// "(a T, b U) (r V, err error)"  -> parse via go/parser as a func type
	src := "package p\nfunc f" + sig
	fset := token.NewFileSet()
	f, err := parser.ParseFile(fset, "sig.go", src, parser.SkipObjectResolution)
	if err != nil {
		return nil, fmt.Errorf("bad signature %q: %v", sig, err)
	}
	fd := f.Decls[0].(*ast.FuncDecl)
	si := &sigInfo{imports: map[string]string{}}
	si.params = fieldListDecls(fset, fd.Type.Params, "p", 0)
	si.results = nameResults(fieldListDecls(fset, fd.Type.Results, "\x00", 0))
	return si, nil
}

var qualRe = regexp.MustCompile(`\b([A-Za-z_][A-Za-z0-9_]*)\.[A-Za-z_]`)

// GenerateSpecs builds the overlay spec file for every package that has a contract file.
func (w *World) GenerateSpecs() error {
	w.GenFiles = map[string][]byte{}
	w.SpecInfo = map[string]*SpecFnInfo{}
	w.Contracts = map[string]*FuncContract{}
	w.Ghosts = map[string]*GhostDecl{}
	w.PkgOfFile = map[*ContractFile]string{}
	w.Sigs = map[*FuncContract]*sigInfo{}
	fset := token.NewFileSet()
	for _, cf := range w.Files {
		dir := filepath.Dir(cf.Path)
		if cf.PkgDir != "" {
			dir = cf.PkgDir
		}
		cf.PkgDir = dir
		files, pkgName, err := parsePackageDir(fset, dir)
		if err != nil {
			return err
		}
		imports := map[string]string{} // alias -> path
		funcs := map[string]*ast.FuncDecl{}
		for _, f := range files {
			for _, im := range f.Imports {
				p := strings.Trim(im.Path.Value, `"`)
				alias := filepath.Base(p)
				if im.Name != nil {
					alias = im.Name.Name
				} else {
					alias = defaultImportName(p)
				}
				if alias == "_" || alias == "." {
					continue
				}
				if _, dup := imports[alias]; !dup {
					imports[alias] = p
				}
			}
			for _, d := range f.Decls {
				fd, ok := d.(*ast.FuncDecl)
				if !ok {
					continue
				}
				key := fd.Name.Name
				if fd.Recv != nil && len(fd.Recv.List) == 1 {
					rt := exprString(fset, fd.Recv.List[0].Type)
					rt = strings.TrimPrefix(rt, "*")
					key = rt + "." + key
				}
				funcs[key] = fd
			}
		}
		for _, im := range cf.Imports {
			fs := strings.Fields(im)
			if len(fs) == 2 {
				imports[fs[0]] = strings.Trim(fs[1], `"`)
			} else if len(fs) == 1 {
				p := strings.Trim(fs[0], `"`)
				imports[defaultImportName(p)] = p
			}
		}
		var body strings.Builder
		ctx := &exprCtx{params: map[string]bool{}, quants: map[string]quantUse{}}
		n := 0
		emit := func(fc *FuncContract, c *Clause, tag string, si *sigInfo, withResults bool, extra []VarDecl) error {
			n++
			base := identOf(fc.Key)
			name := fmt.Sprintf("spec__%s__%s_%d", base, tag, n)
			c.SpecFn = name
			info := &SpecFnInfo{Name: name}
			ctx.params = map[string]bool{}
			var ps []string
			shadow := map[string]bool{}
			for _, v := range extra {
				shadow[v.Name] = true
			}
			for i, p := range si.params {
				pn := p.Name
				if shadow[pn] {
					pn = "_"
				}
				ps = append(ps, pn+" "+p.Type)
				info.Args = append(info.Args, SpecArg{"param", i, p.Name, p.Type})
				ctx.params[p.Name] = true
			}
			if withResults {
				for i, r := range si.results {
					ps = append(ps, r.Name+" "+r.Type)
					info.Args = append(info.Args, SpecArg{"result", i, r.Name, r.Type})
				}
			}
			for i, v := range extra {
				ps = append(ps, v.Name+" "+v.Type)
				info.Args = append(info.Args, SpecArg{"var", i, v.Name, v.Type})
			}
			for i, p := range si.params {
				ps = append(ps, "old_"+p.Name+" "+p.Type)
				info.Args = append(info.Args, SpecArg{"old", i, p.Name, p.Type})
			}
			e, err := ctx.conv(c.Expr)
			if err != nil {
				return fmt.Errorf("%s:%d: %v", cf.Path, c.Line, err)
			}
			rt := "bool"
			if c.Kind == "decreases" || tag == "allocbound" {
				rt = "int"
				e = "int(" + e + ")"
			}
			fmt.Fprintf(&body, "// %s:%d %s %s\nfunc %s(%s) %s {\n\treturn %s\n}\n\n", filepath.Base(cf.Path), c.Line, c.Kind, fc.Key, name, strings.Join(ps, ", "), rt, e)
			w.SpecInfo[name] = info
			return nil
		}
		for _, g := range cf.Ghosts {
			w.Ghosts[g.Name] = g
			zero := "0"
			switch g.Result {
			case "bool":
				zero = "false"
			case "string":
				zero = `""`
			}
			if strings.HasPrefix(g.Result, "*") || strings.HasPrefix(g.Result, "[]") || strings.Contains(g.Result, "interface") || g.Result == "error" {
				zero = "nil"
			}
			fmt.Fprintf(&body, "func %s%s %s { return %s }\n\n", g.Name, g.Params, g.Result, zero)
			if strings.TrimSpace(strings.Trim(strings.TrimSpace(g.Params), "()")) == "" {
				fmt.Fprintf(&body, "func %s__old() %s { return %s }\n\n", g.Name, g.Result, zero)
			}
		}
		for _, g := range cf.GoDecls {
			body.WriteString(g + "\n\n")
		}
		for _, p := range cf.Preds {
			ctx.params = map[string]bool{}
			e, err := ctx.conv(p.Body)
			if err != nil {
				return fmt.Errorf("%s:%d: %v", cf.Path, p.Line, err)
			}
			fmt.Fprintf(&body, "func %s%s bool {\n\treturn %s\n}\n\n", p.Name, p.Params, e)
		}
		for _, fc := range cf.Funcs {
			var si *sigInfo
			if fc.Extern || fc.Iface {
				s, err := parseSigText(fc.Sig)
				if err != nil {
					return fmt.Errorf("%s:%d: %v", cf.Path, fc.Line, err)
				}
				si = s
			} else {
				key := fc.Key
				closure := ""
				if i := strings.Index(key, "$"); i >= 0 {
					closure = key[i:]
					key = key[:i]
				}
				fd := funcs[key]
				if fd == nil && strings.HasPrefix(key, "init") {
					// the package initialiser synthesised by go/ssa (global variable initialisers)
					fd = &ast.FuncDecl{Name: ast.NewIdent("init"), Type: &ast.FuncType{Params: &ast.FieldList{}}}
				}
				if fd == nil {
					w.Unresolved = append(w.Unresolved, fmt.Sprintf("%s:%d func %s", cf.Path, fc.Line, fc.Key))
					w.UnresolvedFC = append(w.UnresolvedFC, fc)
					continue
				}
				si = &sigInfo{}
				if closure != "" {
					// parameters of the function literal first, then the captured variables named by the contract
					lit := findFuncLit(fd, closure)
					if lit == nil {
						w.Unresolved = append(w.Unresolved, fmt.Sprintf("%s:%d func %s", cf.Path, fc.Line, fc.Key))
						w.UnresolvedFC = append(w.UnresolvedFC, fc)
						fc.Dead = true
						continue
					}
					si.params = append(si.params, fieldListDecls(fset, lit.Type.Params, "p", 0)...)
					si.params = append(si.params, fc.FreeVars...)
				}
				if closure == "" {
					if fd.Recv != nil {
						r := fieldListDecls(fset, fd.Recv, "recv", 0)
						si.params = append(si.params, r...)
					}
					si.params = append(si.params, fieldListDecls(fset, fd.Type.Params, "p", len(si.params))...)
					si.results = nameResults(fieldListDecls(fset, fd.Type.Results, "\x00", 0))
				}
			}
			w.Sigs[fc] = si
			for _, c := range fc.Requires {
				if err := emit(fc, c, "requires", si, false, nil); err != nil {
					return err
				}
			}
			for _, c := range fc.Ensures {
				if err := emit(fc, c, "ensures", si, true, nil); err != nil {
					return err
				}
			}
			for _, c := range fc.Assumes {
				if err := emit(fc, c, "assume", si, false, nil); err != nil {
					return err
				}
			}
			for _, m := range fc.Modifies {
				ms := parseModEntry(m)
				fc.ModSpecs = append(fc.ModSpecs, ms)
				if ms.Expr == "" {
					continue
				}
				n++
				base := identOf(fc.Key)
				ms.SpecFn = fmt.Sprintf("spec__%s__mod_%d", base, n)
				info := &SpecFnInfo{Name: ms.SpecFn}
				var ps []string
				for i, p := range si.params {
					ps = append(ps, p.Name+" "+p.Type)
					info.Args = append(info.Args, SpecArg{"param", i, p.Name, p.Type})
				}
				fmt.Fprintf(&body, "func %s(%s) {\n\tspec_ref(%s)\n}\n\n", ms.SpecFn, strings.Join(ps, ", "), ms.Expr)
				w.SpecInfo[ms.SpecFn] = info
			}
			for k, ss := range fc.Sites {
				if err := emit(fc, ss.Clause, fmt.Sprintf("site%d", k+1), si, false, ss.Vars); err != nil {
					return err
				}
			}
			if fc.AllocBound != "" {
				c := &Clause{Kind: "allocbound", Expr: fc.AllocBound, Line: fc.Line}
				if err := emit(fc, c, "allocbound", si, false, nil); err != nil {
					return err
				}
				fc.AllocBound = c.SpecFn
			}
			for _, ls := range fc.Loops {
				for _, m := range ls.Modifies {
					ms := parseModEntry(m)
					ls.ModSpecs = append(ls.ModSpecs, ms)
					if ms.Expr == "" {
						continue
					}
					n++
					ms.SpecFn = fmt.Sprintf("spec__%s__loop%d_mod_%d", identOf(fc.Key), ls.N, n)
					info := &SpecFnInfo{Name: ms.SpecFn}
					var ps []string
					shadow := map[string]bool{}
					for _, v := range ls.Vars {
						shadow[v.Name] = true
					}
					for i, p := range si.params {
						pn := p.Name
						if shadow[pn] {
							pn = "_"
						}
						ps = append(ps, pn+" "+p.Type)
						info.Args = append(info.Args, SpecArg{"param", i, p.Name, p.Type})
					}
					for i, v := range ls.Vars {
						ps = append(ps, v.Name+" "+v.Type)
						info.Args = append(info.Args, SpecArg{"var", i, v.Name, v.Type})
					}
					fmt.Fprintf(&body, "func %s(%s) {\n\tspec_ref(%s)\n}\n\n", ms.SpecFn, strings.Join(ps, ", "), ms.Expr)
					w.SpecInfo[ms.SpecFn] = info
				}
				for _, c := range ls.Invariants {
					if err := emit(fc, c, fmt.Sprintf("loop%d_inv", ls.N), si, false, ls.Vars); err != nil {
						return err
					}
				}
				if ls.Decreases != nil {
					if err := emit(fc, ls.Decreases, fmt.Sprintf("loop%d_dec", ls.N), si, false, ls.Vars); err != nil {
						return err
					}
				}
			}
		}
		for i, c := range cf.PkgInvs {
			ctx.params = map[string]bool{}
			e, err := ctx.conv(c.Expr)
			if err != nil {
				return fmt.Errorf("%s:%d: %v", cf.Path, c.Line, err)
			}
			c.SpecFn = fmt.Sprintf("spec__pkginv_%d", i+1)
			fmt.Fprintf(&body, "func %s() bool {\n\treturn %s\n}\n\n", c.SpecFn, e)
			w.SpecInfo[c.SpecFn] = &SpecFnInfo{Name: c.SpecFn}
		}
		// closed obligations
		for i, c := range append(append([]*Clause{}, cf.Consts...), cf.Lemmas...) {
			ctx.params = map[string]bool{}
			e, err := ctx.conv(c.Expr)
			if err != nil {
				return fmt.Errorf("%s:%d: %v", cf.Path, c.Line, err)
			}
			c.SpecFn = fmt.Sprintf("spec__%s_%d", c.Kind, i+1)
			fmt.Fprintf(&body, "func %s() bool {\n\treturn %s\n}\n\n", c.SpecFn, e)
			w.SpecInfo[c.SpecFn] = &SpecFnInfo{Name: c.SpecFn}
		}
		// quantifier stubs
		var qn []string
		for k := range ctx.quants {
			qn = append(qn, k)
		}
		sort.Strings(qn)
		for _, k := range qn {
			q := ctx.quants[k]
			fmt.Fprintf(&body, "func %s(f func(x %s) bool) bool { return f == nil }\n", k, q.Type)
		}
		// a closed fact may leave the input it fails on here; the evaluation prints it as the witness
		body.WriteString("var specWitness string\n")
		body.WriteString("func spec_imp(a, b bool) bool { return !a || b }\n")
		body.WriteString("func spec_ref(x interface{}) {}\n")
		body.WriteString("func spec_fresh(x interface{}) bool { return x == nil }\n")
		body.WriteString("func spec_allocated(x interface{}) bool { return x == nil }\n")
		body.WriteString("func spec_sameref(x, y interface{}) bool { return x == y }\n")
		body.WriteString("func spec_sameslice(x, y interface{}) bool { return x == nil && y == nil }\n")
		txt := body.String()
		var hdr strings.Builder
		hdr.WriteString("//go:build verif\n\n// Code generated by govc from " + contractFileName + "; overlay only, never written to /repo.\n\npackage " + pkgName + "\n\n")
		used := map[string]bool{}
		var codeOnly strings.Builder
		for _, ln := range strings.Split(txt, "\n") {
			if !strings.HasPrefix(strings.TrimSpace(ln), "//") {
				codeOnly.WriteString(ln)
				codeOnly.WriteByte('\n')
			}
		}
		for _, m := range qualRe.FindAllStringSubmatch(codeOnly.String(), -1) {
			used[m[1]] = true
		}
		var al []string
		for a := range imports {
			if used[a] {
				al = append(al, a)
			}
		}
		sort.Strings(al)
		if len(al) > 0 {
			hdr.WriteString("import (\n")
			for _, a := range al {
				fmt.Fprintf(&hdr, "\t%s %q\n", a, imports[a])
			}
			hdr.WriteString(")\n\n")
		}
		w.GenFiles[filepath.Join(dir, specGenFileName)] = []byte(hdr.String() + txt)
	}
	return nil
}

func defaultImportName(p string) string {
	b := filepath.Base(p)
	// module major version suffix
	if len(b) >= 2 && b[0] == 'v' && b[1] >= '0' && b[1] <= '9' {
		b = filepath.Base(filepath.Dir(p))
	}
	b = strings.TrimPrefix(b, "go-")
	b = strings.TrimSuffix(b, "-go")
	b = strings.ReplaceAll(b, "-", "_")
	b = strings.TrimSuffix(b, ".v2")
	b = strings.TrimSuffix(b, ".v3")
	return b
}

func LoadWorld(repo string, patterns []string) (*World, error) {
	w := &World{RepoDir: repo}
	for _, p := range findContractFiles(repo) {
		cf, err := ParseContractFile(p)
		if err != nil {
			return nil, err
		}
		w.Files = append(w.Files, cf)
	}
	if td := os.Getenv("GOVC_TRUSTED_DIR"); td != "" {
		specs, _ := filepath.Glob(filepath.Join(td, "*.spec"))
		sort.Strings(specs)
		// all trusted specs are merged into one overlay-only package
		var merged *ContractFile
		for _, p := range specs {
			cf, err := ParseContractFile(p)
			if err != nil {
				return nil, err
			}
			if merged == nil {
				merged = cf
				merged.PkgDir = filepath.Join(repo, "internal", "zz_verifspec")
			} else {
				merged.Imports = append(merged.Imports, cf.Imports...)
				merged.Ghosts = append(merged.Ghosts, cf.Ghosts...)
				merged.Preds = append(merged.Preds, cf.Preds...)
				merged.GoDecls = append(merged.GoDecls, cf.GoDecls...)
				merged.PkgInvs = append(merged.PkgInvs, cf.PkgInvs...)
				merged.Funcs = append(merged.Funcs, cf.Funcs...)
				merged.Consts = append(merged.Consts, cf.Consts...)
				merged.Lemmas = append(merged.Lemmas, cf.Lemmas...)
			}
		}
		if merged != nil {
			w.Files = append(w.Files, merged)
			w.TrustedPkgDir = merged.PkgDir
		}
	}
	if extra := os.Getenv("GOVC_EXTRA_CONTRACTS"); extra != "" {
		for _, p := range strings.Split(extra, ":") {
			cf, err := ParseContractFile(p)
			if err != nil {
				return nil, err
			}
			w.Files = append(w.Files, cf)
		}
	}
	if err := w.GenerateSpecs(); err != nil {
		return nil, err
	}
	if os.Getenv("GOVC_DUMP_SPEC") != "" {
		for p, b := range w.GenFiles {
			fmt.Fprintf(os.Stderr, "=== %s\n%s\n", p, b)
		}
	}
	w.Fset = token.NewFileSet()
	cfg := &packages.Config{
		Mode:       packages.LoadSyntax | packages.NeedModule,
		Dir:        repo,
		Fset:       w.Fset,
		BuildFlags: []string{"-tags=verif"},
		Overlay:    w.GenFiles,
		Env:        append(os.Environ(), "GOFLAGS=-mod=mod", "GOPROXY=off", "GOSUMDB=off", "GOTOOLCHAIN=local"),
	}
	if w.TrustedPkgDir != "" {
		patterns = append(patterns, "./internal/zz_verifspec")
	}
	pkgs, err := packages.Load(cfg, patterns...)
	if err != nil {
		return nil, err
	}
	var errs []string
	for _, p := range pkgs {
		for _, e := range p.Errors {
			errs = append(errs, e.Error())
		}
	}
	if len(errs) > 0 {
		return nil, fmt.Errorf("package load errors (the tree does not compile with -tags verif, or a contract does not type-check):\n  %s", strings.Join(errs, "\n  "))
	}
	w.Pkgs = pkgs
	prog, spkgs := ssautil.Packages(pkgs, ssa.GlobalDebug|ssa.InstantiateGenerics)
	prog.Build()
	w.Prog = prog
	w.SsaPkgs = map[string]*ssa.Package{}
	for i, sp := range spkgs {
		if sp != nil {
			w.SsaPkgs[pkgs[i].PkgPath] = sp
		}
	}
	// resolve contracts to ssa functions
	w.FnOf = map[*FuncContract]*ssa.Function{}
	w.ByFn = map[*ssa.Function]*FuncContract{}
	dirToPkg := map[string]*packages.Package{}
	for _, p := range pkgs {
		if len(p.GoFiles) > 0 {
			dirToPkg[filepath.Dir(p.GoFiles[0])] = p
		}
		if strings.HasSuffix(p.PkgPath, "/zz_verifspec") && w.TrustedPkgDir != "" {
			dirToPkg[w.TrustedPkgDir] = p
		}
	}
	for _, cf := range w.Files {
		p := dirToPkg[cf.PkgDir]
		if p == nil {
			if len(cf.Funcs) > 0 {
				w.Unresolved = append(w.Unresolved, cf.Path+": package not loaded")
			}
			continue
		}
		w.PkgOfFile[cf] = p.PkgPath
		if w.FileOfPkg == nil {
			w.FileOfPkg = map[string]*ContractFile{}
		}
		w.FileOfPkg[p.PkgPath] = cf
		sp := w.SsaPkgs[p.PkgPath]
		for _, fc := range cf.Funcs {
			if fc.Extern || fc.Iface {
				if _, dup := w.Contracts[fc.Key]; dup {
					return nil, fmt.Errorf("%s:%d: duplicate contract for %s", cf.Path, fc.Line, fc.Key)
				}
				w.Contracts[fc.Key] = fc
				for _, a := range fc.Aliases {
					w.Contracts[a] = fc
				}
				continue
			}
			if fc.Dead {
				continue
			}
			fn := lookupFunc(prog, sp, fc.Key)
			if fn == nil {
				w.Unresolved = append(w.Unresolved, fmt.Sprintf("%s:%d func %s", cf.Path, fc.Line, fc.Key))
				w.UnresolvedFC = append(w.UnresolvedFC, fc)
				continue
			}
			if prev := w.ByFn[fn]; prev != nil {
				return nil, fmt.Errorf("%s:%d: duplicate contract for %s", cf.Path, fc.Line, fc.Key)
			}
			w.FnOf[fc] = fn
			w.ByFn[fn] = fc
			w.Contracts[fn.String()] = fc
		}
	}
	return w, nil
}

func lookupFunc(prog *ssa.Program, sp *ssa.Package, key string) *ssa.Function {
	closure := ""
	if i := strings.Index(key, "$"); i >= 0 {
		closure = key[i+1:]
		key = key[:i]
	}
	var fn *ssa.Function
	if i := strings.Index(key, "."); i >= 0 {
		tn, mn := key[:i], key[i+1:]
		t := sp.Type(tn)
		if t == nil {
			return nil
		}
		for _, typ := range []types.Type{t.Type(), types.NewPointer(t.Type())} {
			ms := prog.MethodSets.MethodSet(typ)
			for j := 0; j < ms.Len(); j++ {
				sel := ms.At(j)
				if sel.Obj().Name() == mn && sel.Obj().Pkg() == sp.Pkg {
					// only methods declared on this type (not promoted)
					if len(sel.Index()) == 1 {
						f := prog.MethodValue(sel)
						if f != nil && f.Synthetic == "" {
							fn = f
						} else if f != nil && fn == nil {
							// wrapper for value-receiver method reached through pointer: unwrap
							if obj, ok := sel.Obj().(*types.Func); ok {
								fn = prog.FuncValue(obj)
							}
						}
					}
				}
			}
			if fn != nil {
				break
			}
		}
	} else {
		fn = sp.Func(key)
	}
	if fn == nil {
		return nil
	}
	for closure != "" {
		part := closure
		if i := strings.Index(closure, "$"); i >= 0 {
			part, closure = closure[:i], closure[i+1:]
		} else {
			closure = ""
		}
		var idx int
		fmt.Sscanf(part, "%d", &idx)
		if idx < 1 || idx > len(fn.AnonFuncs) {
			return nil
		}
		fn = fn.AnonFuncs[idx-1]
	}
	return fn
}


func identOf(s string) string {
	var b strings.Builder
	for _, r := range s {
		if r >= 'a' && r <= 'z' || r >= 'A' && r <= 'Z' || r >= '0' && r <= '9' {
			b.WriteRune(r)
		} else {
			b.WriteByte('_')
		}
	}
	return b.String()
}


func (w *World) nonNilDynamic(t types.Type) bool {
	n := typeName(t)
	for _, cf := range w.Files {
		for _, x := range cf.NonNilDynamic {
			if x == n {
				return true
			}
		}
	}
	return false
}


// findFuncLit locates the function literal named by a go/ssa closure suffix such as "$1" or "$2$1"
// (n-th literal in source order, nested literals counted inside their parent).
func findFuncLit(fd *ast.FuncDecl, suffix string) *ast.FuncLit {
	var node ast.Node = fd.Body
	var lit *ast.FuncLit
	for _, part := range strings.Split(strings.TrimPrefix(suffix, "$"), "$") {
		var idx int
		fmt.Sscanf(part, "%d", &idx)
		if node == nil || idx < 1 {
			return nil
		}
		var lits []*ast.FuncLit
		ast.Inspect(node, func(n ast.Node) bool {
			if fl, ok := n.(*ast.FuncLit); ok {
				lits = append(lits, fl)
				return false // nested literals belong to this one
			}
			return true
		})
		if idx > len(lits) {
			return nil
		}
		lit = lits[idx-1]
		node = lit.Body
	}
	return lit
}
