package main

import (
	"strconv"
	"fmt"
	"go/token"
	"go/types"
	"sort"
	"strings"

	"golang.org/x/tools/go/ssa"
)

func isSpecGenFn(w *World, fn *ssa.Function) bool {
	if fn == nil || !fn.Pos().IsValid() {
		return false
	}
	return strings.HasSuffix(w.Fset.Position(fn.Pos()).Filename, specGenFileName)
}

func (w *World) specFn(name string) *ssa.Function {
	if w.specFns == nil {
		w.specFns = map[string]*ssa.Function{}
		for path, sp := range w.SsaPkgs {
			for n, m := range sp.Members {
				if f, ok := m.(*ssa.Function); ok && (strings.HasPrefix(n, "spec__")) {
					w.specFns[path+"::"+n] = f
					if !strings.HasPrefix(n, "spec__pkginv_") && !strings.HasPrefix(n, "spec__const_") && !strings.HasPrefix(n, "spec__lemma_") {
						w.specFns[n] = f
					}
				}
			}
		}
	}
	return w.specFns[name]
}

// ---------------------------------------------------------------------------
// spec evaluation

// evalClause evaluates a clause of the function under verification (args = its own parameters).
func (e *Eng) evalClause(c *Clause, st, oldSt *State, results []Val, vars map[string]Val) T {
	v := e.evalSpecArgs(c.SpecFn, e.params, results, vars, st, oldSt)
	return v.(T)
}

func (e *Eng) evalSpecByName(name string, st, oldSt *State, results []Val, vars map[string]Val) Val {
	return e.evalSpecArgs(name, e.params, results, vars, st, oldSt)
}

func (e *Eng) evalSpecArgs(name string, params []Val, results []Val, vars map[string]Val, st, oldSt *State) Val {
	info := e.w.SpecInfo[name]
	fn := e.w.specFn(name)
	if info == nil || fn == nil {
		panic(unsupportedErr{"spec function " + name + " not found"})
	}
	var args []Val
	var taint []bool
	for _, a := range info.Args {
		switch a.Role {
		case "param":
			if a.Idx >= len(params) {
				panic(unsupportedErr{fmt.Sprintf("spec %s: parameter %d missing", name, a.Idx)})
			}
			args = append(args, params[a.Idx])
			taint = append(taint, false)
		case "old":
			args = append(args, params[a.Idx])
			taint = append(taint, true)
		case "result":
			if a.Idx >= len(results) {
				panic(unsupportedErr{fmt.Sprintf("spec %s: result %d missing", name, a.Idx)})
			}
			args = append(args, results[a.Idx])
			taint = append(taint, false)
		case "var":
			v, ok := vars[a.Name]
			if !ok {
				panic(unsupportedErr{fmt.Sprintf("spec %s: variable %s unbound", name, a.Name)})
			}
			args = append(args, v)
			taint = append(taint, false)
		}
	}
	// adapt argument representation to the declared parameter types of the spec function
	for i, p := range fn.Params {
		args[i] = e.adapt(args[i], p.Type())
	}
	var side []T
	v, _, _ := e.evalPureSide(fn, args, taint, nil, nil, st, oldSt, 0, &side)
	for _, c := range dedup(side) {
		e.assume(st, c)
	}
	return v
}

// adapt converts a value to the representation expected for static type t (e.g. a pointer whose
// kind was derived from a different static view).
func (e *Eng) adapt(v Val, t types.Type) Val {
	return v
}

type pureResult struct {
	captured []Val
}

// evalPure symbolically evaluates a loop-free, side-effect-free function as a term.
func (e *Eng) evalPure(fn *ssa.Function, args []Val, taint []bool, bind []Val, bindTaint []bool, st, oldSt *State, depth int) (Val, bool, *pureResult) {
	return e.evalPureSide(fn, args, taint, bind, bindTaint, st, oldSt, depth, nil)
}

func (e *Eng) evalPureSide(fn *ssa.Function, args []Val, taint []bool, bind []Val, bindTaint []bool, st, oldSt *State, depth int, side *[]T) (Val, bool, *pureResult) {
	if depth > 12 {
		panic(unsupportedErr{"spec evaluation too deep (recursive predicate?) in " + fn.String()})
	}
	if fn.Blocks == nil {
		panic(unsupportedErr{"spec calls function without body: " + fn.String()})
	}
	fr := &Frame{fn: fn, vals: map[ssa.Value]Val{}, pure: true, taint: map[ssa.Value]bool{}, oldSt: oldSt, depth: depth, side: side}
	pr := &pureResult{}
	fr.pr = pr
	for i, p := range fn.Params {
		fr.vals[p] = args[i]
		if taint != nil && taint[i] {
			fr.taint[p] = true
		}
	}
	for i, fv := range fn.FreeVars {
		fr.vals[fv] = bind[i]
		if bindTaint != nil && bindTaint[i] {
			fr.taint[fv] = true
		}
	}
	// outside binders, long conditions and merged values are named by fresh constants with defining
	// equations, so that they are not copied textually into every later term
	nameB := func(t T) T {
		if e.binderDepth > 0 || len(t) <= compactLimit {
			return t
		}
		c := e.fresh("sc", sBool)
		if !e.collect {
			e.q.Assert(tEq(c, t))
		}
		return c
	}
	nameV := func(t types.Type, v Val) Val {
		if e.binderDepth > 0 {
			return v
		}
		nm := func(x T, sort string) T {
			if len(x) <= compactLimit {
				return x
			}
			c := e.fresh("sv", sort)
			if !e.collect {
				e.q.Assert(tEq(c, x))
			}
			return c
		}
		switch x := v.(type) {
		case T:
			if cs := comps(t); len(cs) == 1 {
				return nm(x, cs[0].sort)
			}
		case *StrV:
			if x.Lit == nil {
				return &StrV{B: nm(x.B, sRef), O: nm(x.O, sI64), L: nm(x.L, sI64)}
			}
		case *SliceV:
			return &SliceV{nm(x.B, sRef), nm(x.O, sI64), nm(x.L, sI64), nm(x.C, sI64)}
		case *IfaceV:
			nx := *x
			nx.Ty, nx.V = nm(x.Ty, sTag), nm(x.V, sRef)
			return &nx
		case *PtrV:
			if x.Kind != pLocal && x.Kind != pGlobal {
				nx := *x
				nx.Ref = nm(x.Ref, sRef)
				return &nx
			}
		}
		return v
	}
	reach := map[*ssa.BasicBlock]T{}
	edgeCond := map[[2]int]T{} // (from,to,k) approximated by from*N+succIdx
	type retT struct {
		cond T
		v    Val
		t    bool
	}
	var rets []retT
	ps := &State{heap: st.heap, reach: "true"}
	for _, b := range rpo(fn) {
		if b.Index == 0 {
			reach[b] = "true"
		} else {
			var cs []T
			for pi, p := range b.Preds {
				if isBackEdge(p, b) {
					panic(unsupportedErr{"loop in spec function " + fn.String()})
				}
				if _, ok := reach[p]; !ok {
					continue
				}
				cs = append(cs, edgeCond[[2]int{b.Index, pi}])
			}
			reach[b] = nameB(tOr(cs...))
		}
		for _, instr := range b.Instrs {
			switch in := instr.(type) {
			case *ssa.Phi:
				var v Val
				tainted := false
				first := true
				for pi := len(b.Preds) - 1; pi >= 0; pi-- {
					if _, ok := reach[b.Preds[pi]]; !ok {
						continue
					}
					ev := e.val(fr, in.Edges[pi])
					if fr.taint[in.Edges[pi]] {
						tainted = true
					}
					if first {
						v = ev
						first = false
					} else {
						v = iteVal(in.Type(), edgeCond[[2]int{b.Index, pi}], ev, v)
					}
				}
				if bt, isT := v.(T); isT && isBool(in.Type()) {
					v = nameB(bt)
				} else {
					v = nameV(in.Type(), v)
				}
				fr.vals[in] = v
				if tainted {
					fr.taint[in] = true
				}
			case *ssa.DebugRef:
			case *ssa.If:
				c := nameB(e.val(fr, in.Cond).(T))
				e.pureEdge(b, 0, tAnd(reach[b], c), edgeCond)
				e.pureEdge(b, 1, tAnd(reach[b], tNot(c)), edgeCond)
			case *ssa.Jump:
				e.pureEdge(b, 0, reach[b], edgeCond)
			case *ssa.Return:
				var v Val
				t := false
				switch len(in.Results) {
				case 0:
				case 1:
					v = e.val(fr, in.Results[0])
					t = fr.taint[in.Results[0]]
				default:
					tv := &TupleV{}
					for _, r := range in.Results {
						tv.Elems = append(tv.Elems, e.val(fr, r))
						t = t || fr.taint[r]
					}
					v = tv
				}
				rets = append(rets, retT{reach[b], v, t})
			case *ssa.Panic:
				// unreachable by assumption in specs
			default:
				ps.reach = reach[b]
				e.step(fr, ps, instr)
			}
		}
	}
	if len(rets) == 0 {
		return nil, false, pr
	}
	var rt types.Type
	switch fn.Signature.Results().Len() {
	case 0:
		return nil, false, pr
	case 1:
		rt = fn.Signature.Results().At(0).Type()
	default:
		rt = fn.Signature.Results()
	}
	v := rets[len(rets)-1].v
	t := rets[len(rets)-1].t
	for i := len(rets) - 2; i >= 0; i-- {
		v = iteVal(rt, rets[i].cond, rets[i].v, v)
		t = t || rets[i].t
	}
	if len(rets) > 1 {
		if bt, isT := v.(T); !(isT && isBool(rt)) {
			v = nameV(rt, v)
		} else {
			v = nameB(bt)
		}
	}
	return v, t, pr
}

func (e *Eng) pureEdge(b *ssa.BasicBlock, succIdx int, cond T, edgeCond map[[2]int]T) {
	to := b.Succs[succIdx]
	occ := 0
	for i := 0; i < succIdx; i++ {
		if b.Succs[i] == to {
			occ++
		}
	}
	for i, p := range to.Preds {
		if p == b {
			if occ == 0 {
				edgeCond[[2]int{to.Index, i}] = cond
				return
			}
			occ--
		}
	}
}

// boundVal creates bound variables for a quantifier over type t.
func (e *Eng) boundVal(t types.Type, hint string) (Val, []string) {
	cs := comps(t)
	ts := make([]T, len(cs))
	var decls []string
	for i, c := range cs {
		e.nfresh++
		n := fmt.Sprintf("%s!q%d", hint, e.nfresh)
		ts[i] = n
		decls = append(decls, fmt.Sprintf("(%s %s)", n, c.sort))
	}
	v, _ := unflat(t, ts)
	return v, decls
}

// ---------------------------------------------------------------------------
// calls

func calleeOf(cc *ssa.CallCommon) ssa.Value { return cc.Value }

func (e *Eng) doCall(fr *Frame, st *State, instr ssa.Instruction, cc *ssa.CallCommon, mode string) {
	// package-level locks: every session of the process shares them.  Lock / Unlock on a package-level mutex set
	// and clear a token; a call that waits for a peer while the token is set is a failed obligation (below).
	if !fr.pure && len(cc.Args) > 0 && !cc.IsInvoke() {
		switch calleeName(cc) {
		case "(*sync.Mutex).Lock", "(*sync.RWMutex).Lock", "(*sync.RWMutex).RLock":
			if isGlobalAddr(cc.Args[0]) {
				e.hstore(st, "G|holds_globallock", nil, types.Typ[types.Bool], T("true"))
			} else if fr.fn == e.fn || fr.fn.Parent() == e.fn {
				// a mutex inside some object (an endpoint, a table): whoever else uses that object waits for it
				e.hstore(st, "G|holds_objectlock", nil, types.Typ[types.Bool], T("true"))
			}
		case "(*sync.Mutex).Unlock", "(*sync.RWMutex).Unlock", "(*sync.RWMutex).RUnlock":
			if isGlobalAddr(cc.Args[0]) {
				e.hstore(st, "G|holds_globallock", nil, types.Typ[types.Bool], T("false"))
			} else if fr.fn == e.fn || fr.fn.Parent() == e.fn {
				e.hstore(st, "G|holds_objectlock", nil, types.Typ[types.Bool], T("false"))
			}
		}
	}
	// `nocall X`: a reachable call of X from this function (or from a closure it runs) is a failed obligation
	if !fr.pure && e.fc != nil && len(e.fc.NoCalls) > 0 && !e.collect {
		name := calleeName(cc)
		for _, nc := range e.fc.NoCalls {
			if calleeMatches(name, nc.Expr) {
				if e.noCallHit == nil {
					e.noCallHit = map[*Clause]bool{}
				}
				e.noCallHit[nc] = true
				e.oblige(st, "nocall", nc.Label, propsOf(nc, e), "false", instr, "this function must never call "+nc.Expr+" (reached here)")
			}
		}
	}
	// `callsite X#n (vars) require expr`: an assertion about the state in which the call is made
	if !fr.pure && e.fc != nil && len(e.fc.Sites) > 0 && fr.fn == e.fn {
		name := calleeName(cc)
		for _, ss := range e.fc.Sites {
			if ss.Kind != "require" || !calleeMatches(name, ss.Callee) || e.siteOrdinal(instr, cc, ss.Callee) != ss.N {
				continue
			}
			if e.siteHit == nil {
				e.siteHit = map[*SiteSpec]bool{}
			}
			e.siteHit[ss] = true
			vars := map[string]Val{}
			for _, vd := range ss.Vars {
				if v, ok := e.callArgVar(fr, cc, vd.Name); ok {
					vars[vd.Name] = v
					continue
				}
				if v, ok := e.loopSiteVar(fr, instr, vd.Name); ok {
					vars[vd.Name] = v
					continue
				}
				vars[vd.Name] = e.localAtTyped(fr, st, instr, vd.Name, ss.Clause)
			}
			t := e.evalClause(ss.Clause, st, e.entry, nil, vars)
			e.oblige(st, "assert", ss.Clause.Label, propsOf(ss.Clause, e), t, instr, "assertion before call "+ss.Callee+": "+ss.Clause.Expr)
			e.assume(st, t)
		}
	}
	e.doCallInner(fr, st, instr, cc, mode)
	if fr.pure || e.fc == nil || len(e.fc.Sites) == 0 || fr.fn != e.fn {
		return
	}
	name := calleeName(cc)
	for _, ss := range e.fc.Sites {
		if ss.Kind == "require" || !calleeMatches(name, ss.Callee) {
			continue
		}
		if e.siteOrdinal(instr, cc, ss.Callee) != ss.N {
			continue
		}
		if e.siteHit == nil {
			e.siteHit = map[*SiteSpec]bool{}
		}
		e.siteHit[ss] = true
		vars := map[string]Val{}
		var res Val
		if v, ok := instr.(ssa.Value); ok {
			res = fr.vals[v]
		}
		nres := cc.Signature().Results().Len()
		for i, vd := range ss.Vars {
			if i >= nres {
				if v, ok := e.callArgVar(fr, cc, vd.Name); ok {
					vars[vd.Name] = v
					continue
				}
				vars[vd.Name] = e.localAtTyped(fr, st, instr, vd.Name, ss.Clause)
				continue
			}
			if tv, ok := res.(*TupleV); ok && nres > 1 {
				vars[vd.Name] = tv.Elems[i]
			} else {
				vars[vd.Name] = res
			}
		}
		t := e.evalClause(ss.Clause, st, e.entry, nil, vars)
		if ss.Kind == "assume" {
			e.assume(st, t)
			e.note(fmt.Sprintf("assumption at call %s#%d in %s: %s (%s)", ss.Callee, ss.N, fnDisplayName(e.fn), ss.Clause.Expr, ss.Clause.Reason))
		} else {
			e.oblige(st, "assert", ss.Clause.Label, propsOf(ss.Clause, e), t, instr, "assertion after call "+ss.Callee+": "+ss.Clause.Expr)
			e.assume(st, t)
		}
	}
}

func calleeName(cc *ssa.CallCommon) string {
	if cc.IsInvoke() {
		return cc.Method.FullName()
	}
	switch v := cc.Value.(type) {
	case *ssa.Function:
		return v.String()
	case *ssa.Builtin:
		return v.Name()
	case *ssa.MakeClosure:
		return v.Fn.(*ssa.Function).String()
	case *ssa.UnOp:
		// call of a function stored in a struct field: named by the field
		if fa, ok := v.X.(*ssa.FieldAddr); ok {
			if pt, ok := fa.X.Type().Underlying().(*types.Pointer); ok {
				if st, ok := pt.Elem().Underlying().(*types.Struct); ok {
					return "field." + st.Field(fa.Field).Name()
				}
			}
		}
	}
	return ""
}

// siteOrdinal: position (1-based, in source order) of this call among the calls of the same callee.
func (e *Eng) siteOrdinal(instr ssa.Instruction, cc *ssa.CallCommon, callee string) int {
	type cs struct {
		in  ssa.Instruction
		pos token.Pos
	}
	var all []cs
	for _, b := range e.fn.Blocks {
		for _, in := range b.Instrs {
			var c *ssa.CallCommon
			switch x := in.(type) {
			case *ssa.Call:
				c = &x.Call
			case *ssa.Go:
				c = &x.Call
			case *ssa.Defer:
				c = &x.Call
			}
			if c == nil {
				continue
			}
			n := calleeName(c)
			if calleeMatches(n, callee) {
				all = append(all, cs{in, in.Pos()})
			}
		}
	}
	sort.SliceStable(all, func(i, j int) bool { return all[i].pos < all[j].pos })
	for i, c := range all {
		if c.in == instr {
			return i + 1
		}
	}
	return 0
}

func (e *Eng) doCallInner(fr *Frame, st *State, instr ssa.Instruction, cc *ssa.CallCommon, mode string) {
	var resVal ssa.Value
	if v, ok := instr.(ssa.Value); ok {
		resVal = v
	}
	setRes := func(v Val) {
		if resVal != nil {
			if v == nil {
				v = &TupleV{}
			}
			fr.vals[resVal] = v
		}
	}
	var args []Val
	var argTaint []bool
	anyTaint := false
	for _, a := range cc.Args {
		args = append(args, e.val(fr, a))
		t := fr.pure && fr.taint[a]
		argTaint = append(argTaint, t)
		anyTaint = anyTaint || t
	}
	sig := cc.Signature()
	if cc.IsInvoke() {
		recv := e.val(fr, cc.Value).(*IfaceV)
		e.safe(fr, st, "nil", tNot(tEq(recv.Ty, bvLit(32, 0))), instr, "interface value is not nil when a method is called")
		key := cc.Method.FullName()
		all := append([]Val{recv}, args...)
		if fr.pure {
			// pure interface method in a spec: uninterpreted function of the receiver identity
			setRes(e.pureIfaceCall(fr, st, key, recv, sig, fr.taint[cc.Value]))
			if resVal != nil && (fr.taint[cc.Value] || anyTaint) {
				fr.taint[resVal] = true
			}
			return
		}
		fc := e.w.Contracts[key]
		if fc == nil {
			// methods declared by an embedded interface
			fc = e.lookupIfaceContract(cc)
		}
		if fc != nil && fc.Stable && sig.Results().Len() == 1 {
			e.trustedUse["contract:"+key] = true
			v := e.pureIfaceCall(fr, st, key, recv, sig, false)
			e.assume(st, e.wf(sig.Results().At(0).Type(), v))
			setRes(v)
			return
		}
		if fc != nil {
			setRes(e.applyContract(fr, st, instr, fc, key, all, sig, mode))
			return
		}
		if isBenignIface(key) {
			setRes(e.freshResults(fr, st, sig, key))
			e.trustedUse["benign:"+key] = true
			return
		}
		e.note("call of interface method without contract " + key + ": modifies *")
		e.callFrameCheck(fr, st, instr, nil, key, nil)
		e.havocAll(st, key)
		setRes(e.freshResults(fr, st, sig, key))
		return
	}
	switch cv := cc.Value.(type) {
	case *ssa.Builtin:
		setRes(e.builtin(fr, st, instr, cv.Name(), cc, args))
		if resVal != nil && anyTaint {
			if _, basic := under(resVal.Type()).(*types.Basic); !basic {
				fr.taint[resVal] = true
			}
		}
		return
	}
	var fn *ssa.Function
	var bind []Val
	var bindTaint []bool
	switch cv := cc.Value.(type) {
	case *ssa.Function:
		fn = cv
	case *ssa.MakeClosure:
		fn = cv.Fn.(*ssa.Function)
		for _, b := range cv.Bindings {
			bind = append(bind, e.val(fr, b))
			bindTaint = append(bindTaint, fr.pure && fr.taint[b])
		}
	default:
		if fv, ok := e.val(fr, cc.Value).(*FuncV); ok && fv.Fn != nil {
			fn = fv.Fn
			bind = fv.Bind
		} else if ok && !fr.pure {
			e.safe(fr, st, "nil", tNot(tEq(fv.Ref, null)), instr, "function value is not nil when called")
		}
	}
	if fn == nil {
		if fr.pure {
			panic(unsupportedErr{"spec calls unknown function value"})
		}
		// contract for function-typed struct fields: key "field:<Struct>.<field>"
		if key, owner := e.funcFieldKey(fr, cc.Value); key != "" {
			if fc := e.w.Contracts[key]; fc != nil {
				// the contract of a function-typed field takes the owning object as its first parameter
				all := append([]Val{owner}, args...)
				setRes(e.applyContract(fr, st, instr, fc, key, all, sig, mode))
				return
			}
		}
		if fc := e.w.Contracts["dyncall:"+types.TypeString(sig, nil)]; fc != nil {
			if len(sig.Params().String()) > 0 {
				setRes(e.applyContract(fr, st, instr, fc, "dyncall:"+types.TypeString(sig, nil), args, sig, mode))
				return
			}
		}
		e.note("call of unknown function value at " + e.posOf(instr) + ": modifies *")
		e.callFrameCheck(fr, st, instr, nil, "dynamic call", nil)
		e.havocAll(st, "dynamic call")
		setRes(e.freshResults(fr, st, sig, "dyncall"))
		return
	}
	if fr.pure && !isSpecGenFn(e.w, fn) && fn.Blocks == nil {
		// library function in a contract clause: only functions declared deterministic are allowed
		if fc := e.w.Contracts[fn.String()]; fc != nil && fc.Deterministic && sig.Results().Len() == 1 {
			setRes(e.ufResult(fn.String(), 0, sig.Results().At(0).Type(), args, sig))
			return
		}
		panic(unsupportedErr{"contract clause calls a library function that is not declared deterministic: " + fn.String()})
	}
	if isSpecGenFn(e.w, fn) || fr.pure {
		v, t := e.specCall(fr, st, fn, args, argTaint, bind, bindTaint)
		setRes(v)
		if resVal != nil && (t || anyTaint) {
			fr.taint[resVal] = true
		}
		return
	}
	key := fn.String()
	if fc := e.w.Contracts[key]; fc != nil {
		cargs := args
		if len(fc.FreeVars) > 0 {
			// closure contracts are stated over the literal's parameters and the captured variables (by name)
			cargs = append([]Val{}, args...)
			for _, d := range fc.FreeVars {
				for i, fv := range fn.FreeVars {
					if fv.Name() == d.Name && i < len(bind) {
						if p, ok := bind[i].(*PtrV); ok {
							cargs = append(cargs, e.loadPtr(fr, st, p, p.Elem))
						}
					}
				}
			}
			if len(cargs) != len(args)+len(fc.FreeVars) {
				panic(unsupportedErr{"cannot bind captured variables of " + key})
			}
		}
		setRes(e.applyContract(fr, st, instr, fc, key, cargs, sig, mode))
		return
	}
	if v, ok := e.nativeModel(fr, st, instr, fn, args); ok {
		setRes(v)
		return
	}
	inRepo := fn.Pkg != nil && e.w.SsaPkgs[fn.Pkg.Pkg.Path()] != nil && fn.Blocks != nil
	if fn.Parent() != nil {
		inRepo = true
	}
	if inRepo {
		e.note("call of in-repo function without contract " + fnDisplayName(fn) + ": modifies *")
		e.callFrameCheck(fr, st, instr, nil, key, nil)
		e.havocAll(st, key)
		setRes(e.freshResults(fr, st, sig, fn.Name()))
		return
	}
	switch externPolicy(fn) {
	case "pure":
		e.trustedUse["extern-pure:"+key] = true
		setRes(e.freshResults(fr, st, sig, fn.Name()))
		e.externResultFacts(fr, st, fn, resVal, args)
	default:
		// does any argument give the callee a way back into repository objects?
		escapes := false
		for i, a := range cc.Args {
			switch under(a.Type()).(type) {
			case *types.Interface:
				if iv, ok := args[i].(*IfaceV); ok && iv.Boxed != nil {
					if _, isPtr := iv.Boxed.(*PtrV); !isPtr {
						continue
					}
					// a pointer whose pointee type is not declared in /repo has no methods that could
					// reach repository state: only its direct target is written
					if !e.repoType(iv.BoxedT) {
						continue
					}
				}
				if types.Identical(a.Type(), types.Universe.Lookup("error").Type()) {
					continue
				}
				escapes = true
			case *types.Signature:
				escapes = true
			}
		}
		if escapes {
			e.note("external call " + key + " receives interface/function arguments: modifies *")
			e.callFrameCheck(fr, st, instr, nil, key, nil)
			e.havocAll(st, key)
		} else {
			e.trustedUse["extern-args-only:"+key] = true
			for i, a := range cc.Args {
				e.havocTarget(fr, st, a.Type(), args[i], instr)
			}
		}
		setRes(e.freshResults(fr, st, sig, fn.Name()))
	}
}

func (e *Eng) funcFieldKey(fr *Frame, v ssa.Value) (string, Val) {
	// t = *(&x.f)
	if u, ok := v.(*ssa.UnOp); ok {
		if fa, ok := u.X.(*ssa.FieldAddr); ok {
			st := fa.X.Type().Underlying().(*types.Pointer).Elem()
			s := under(st).(*types.Struct)
			return "field:" + typeName(st) + "." + s.Field(fa.Field).Name(), e.val(fr, fa.X)
		}
	}
	return "", nil
}

func (e *Eng) lookupIfaceContract(cc *ssa.CallCommon) *FuncContract {
	// try "(pkg.T).M" for the static interface type of the receiver
	t := cc.Value.Type()
	key := "(" + types.TypeString(t, nil) + ")." + cc.Method.Name()
	return e.w.Contracts[key]
}

func isBenignIface(key string) bool {
	switch key {
	case "(error).Error", "(fmt.Stringer).String", "(net.Addr).String", "(net.Addr).Network":
		return true
	}
	return false
}

var purePkgs = map[string]bool{
	"fmt": true, "log": true, "github.com/sirupsen/logrus": true, "errors": true, "github.com/pkg/errors": true,
	"strings": true, "strconv": true, "unicode": true, "unicode/utf8": true, "time": true, "math": true,
	"math/rand": true, "os": true, "path": true, "path/filepath": true, "regexp": true, "net/url": true,
	"github.com/hashicorp/go-multierror": true, "runtime": true, "runtime/debug": true, "sync/atomic": false,
	"crypto/sha256": true, "golang.org/x/crypto/pbkdf2": true, "encoding/hex": true, "math/bits": true,
	"unicode/utf16": true, "reflect": true, "net/textproto": false, "sort": false,
}

func externPolicy(fn *ssa.Function) string {
	pkg := ""
	if fn.Pkg != nil {
		pkg = fn.Pkg.Pkg.Path()
	} else if fn.Signature.Recv() != nil {
		// method of external type (no ssa package body): derive from receiver type
		if n, ok := derefNamed(fn.Signature.Recv().Type()); ok && n.Obj().Pkg() != nil {
			pkg = n.Obj().Pkg().Path()
		}
	} else if obj := fn.Object(); obj != nil && obj.Pkg() != nil {
		pkg = obj.Pkg().Path()
	}
	name := fn.String()
	switch {
	case strings.HasPrefix(name, "(*sync.Mutex)."), strings.HasPrefix(name, "(*sync.RWMutex)."), strings.HasPrefix(name, "(*sync.WaitGroup)."):
		return "pure"
	case strings.HasPrefix(name, "(*sync.Once)."):
		return "all"
	case name == "(*encoding/base32.Encoding).EncodeToString", name == "(*encoding/base32.Encoding).DecodeString",
		name == "(*encoding/base64.Encoding).EncodeToString", name == "(*encoding/base64.Encoding).DecodeString",
		name == "(encoding/base32.Encoding).WithPadding", name == "(encoding/base64.Encoding).WithPadding",
		name == "encoding/base32.NewEncoding", name == "encoding/base64.NewEncoding",
		name == "encoding/ascii85.MaxEncodedLen":
		return "pure"
	}
	if purePkgs[pkg] {
		return "pure"
	}
	return "args"
}

func derefNamed(t types.Type) (*types.Named, bool) {
	if p, ok := types.Unalias(t).(*types.Pointer); ok {
		t = p.Elem()
	}
	n, ok := types.Unalias(t).(*types.Named)
	return n, ok
}

// externResultFacts: a few facts about results of trusted pure library functions.
func (e *Eng) externResultFacts(fr *Frame, st *State, fn *ssa.Function, res ssa.Value, args []Val) {
	if res == nil {
		return
	}
	name := fn.String()
	v := fr.vals[res]
	switch name {
	case "errors.New", "fmt.Errorf", "github.com/pkg/errors.New", "github.com/pkg/errors.Errorf":
		if _, ok := v.(*IfaceV); ok {
			// a non-nil error value backed by a freshly allocated object (distinct from every earlier one)
			r := e.newRef(fr, st, "err")
			ty := e.fresh("errtype", sTag)
			e.assume(st, tNot(tEq(ty, bvLit(32, 0))))
			fr.vals[res] = &IfaceV{Ty: ty, V: r}
		}
	case "github.com/pkg/errors.WithStack", "github.com/pkg/errors.Wrapf", "github.com/pkg/errors.Wrap", "github.com/pkg/errors.WithMessage", "github.com/pkg/errors.WithMessagef":
		if iv, ok := v.(*IfaceV); ok {
			if a, ok := args[0].(*IfaceV); ok {
				e.assume(st, tEq(tEq(iv.Ty, bvLit(32, 0)), tEq(a.Ty, bvLit(32, 0))))
			}
		}
	}
}

// havocTarget forgets the memory directly reachable through one argument of an external call.
func (e *Eng) havocTarget(fr *Frame, st *State, t types.Type, v Val, instr ssa.Instruction) {
	switch x := v.(type) {
	case *PtrV:
		if x.Kind == pLocal {
			x.Local.val = e.freshVal(x.Elem, "ext")
			return
		}
		if x.Kind == pStruct {
			// external code may write any field of the pointed-to struct
			if _, ok := under(x.Elem).(*types.Struct); ok {
				nv := e.freshVal(x.Elem, "ext")
				e.checkFrameStore(fr, st, x, instr)
				e.storePtr(fr, st, x, x.Elem, nv)
				// ... and an uncontracted library call on an object invalidates what the typestate ghosts
				// say about that object (it may have reconfigured, closed or consumed it)
				for _, n := range e.sortedHeapNames() {
					if !strings.HasPrefix(n, "G|") || strings.HasPrefix(n, "G|snap_") || strings.HasPrefix(n, "G|holds_") || strings.HasPrefix(n, "G|chan") {
						continue
					}
					if !strings.HasPrefix(e.heapNames[n], "(Array "+sRef+" ") {
						continue
					}
					st.heap[n] = app("store", st.heap[n], x.Ref, e.fresh("extghost", elemSortOf(e.heapNames[n])))
					e.modified[n] = true
				}
				return
			}
		}
		if x.Kind == pArr {
			return
		}
		nv := e.freshVal(x.Elem, "ext")
		e.assume(st, e.wf(x.Elem, nv))
		e.checkFrameStore(fr, st, x, instr)
		e.storePtr(fr, st, x, x.Elem, nv)
	case *SliceV:
		sl, ok := under(t).(*types.Slice)
		if !ok {
			return
		}
		e.checkFrameElems(fr, st, x.B, elemKey(sl.Elem()), instr)
		for _, c := range comps(sl.Elem()) {
			name := "E|" + elemKey(sl.Elem()) + c.suffix
			h := e.heapTerm(st, name, heapSortFor(idxSorts(2), c.sort))
			st.heap[name] = app("store", h, x.B, e.fresh("extrow", arrSort(sI64, c.sort)))
			e.modified[name] = true
		}
	case *IfaceV:
		if x.Boxed != nil {
			e.havocTarget(fr, st, x.BoxedT, x.Boxed, instr)
		}
	case *MapV:
	}
}

func (e *Eng) freshResults(fr *Frame, st *State, sig *types.Signature, hint string) Val {
	res := sig.Results()
	switch res.Len() {
	case 0:
		return nil
	case 1:
		v := e.freshVal(res.At(0).Type(), "r_"+hint)
		e.assume(st, e.wf(res.At(0).Type(), v))
		e.assumeValAllocated(fr, st, res.At(0).Type(), v)
		return v
	}
	tv := &TupleV{}
	for i := 0; i < res.Len(); i++ {
		v := e.freshVal(res.At(i).Type(), fmt.Sprintf("r_%s_%d", hint, i))
		e.assume(st, e.wf(res.At(i).Type(), v))
		e.assumeValAllocated(fr, st, res.At(i).Type(), v)
		tv.Elems = append(tv.Elems, v)
	}
	return tv
}

// specCall handles calls inside spec evaluation (and calls of generated stubs).
func (e *Eng) specCall(fr *Frame, st *State, fn *ssa.Function, args []Val, argTaint []bool, bind []Val, bindTaint []bool) (Val, bool) {
	name := fn.Name()
	switch {
	case name == "spec_imp":
		return tImp(args[0].(T), args[1].(T)), false
	case name == "spec_ref":
		if fr.pr != nil {
			iv := args[0].(*IfaceV)
			fr.pr.captured = append(fr.pr.captured, iv)
		}
		return nil, false
	case strings.HasPrefix(name, "spec_forall_"), strings.HasPrefix(name, "spec_exists_"):
		fv := args[0].(*FuncV)
		if fv.Fn == nil {
			panic(unsupportedErr{"quantifier body must be a function literal"})
		}
		pt := fv.Fn.Params[0].Type()
		bv, decls := e.boundVal(pt, fv.Fn.Params[0].Name())
		var bt []bool
		for range fv.Bind {
			bt = append(bt, false)
		}
		// taints of captured cells are tracked in the cells themselves
		// no side conditions under binders: they would mention the bound variable
		var qside []T
		e.binderDepth++
		body, _, _ := e.evalPureSide(fv.Fn, []Val{bv}, nil, fv.Bind, bt, st, fr.oldSt, fr.depth+1, nil)
		e.binderDepth--
		q := "forall"
		if strings.HasPrefix(name, "spec_exists_") {
			q = "exists"
		}
		e.quantified = true
		bt2 := body.(T)
		// type invariants of values read inside the body (slice headers etc.) are facts
		if len(qside) > 0 {
			if q == "forall" {
				bt2 = tImp(tAnd(dedup(qside)...), bt2)
			} else {
				bt2 = tAnd(append(dedup(qside), bt2)...)
			}
		}
		if q == "forall" {
			var names []string
			for _, d := range decls {
				names = append(names, strings.Fields(strings.Trim(d, "()"))[0])
			}
			// Re-index by absolute row position: a read s[k] is (select row (bvadd off k)); substituting
			// k := x - off turns it into (select row x), a trigger that matches every read of that row
			// (k -> k+off is a bijection on bit-vectors, so the formula is equivalent).
			if len(names) == 1 {
				if nb, pat, ok := absoluteReindex(bt2, names[0]); ok {
					return fmt.Sprintf("(forall (%s) (! %s :pattern (%s)))", decls[0], nb, pat), false
				}
			}
			if pats := selectPatterns(bt2, names); len(pats) > 0 {
				var ps strings.Builder
				for _, p := range pats {
					ps.WriteString(" :pattern (" + p + ")")
				}
				return fmt.Sprintf("(forall (%s) (! %s%s))", strings.Join(decls, " "), bt2, ps.String()), false
			}
		}
		return fmt.Sprintf("(%s (%s) %s)", q, strings.Join(decls, " "), bt2), false
	case name == "spec_fresh":
		// allocated since the state `old` refers to: the function's entry for its own clauses, the state
		// before the call for a callee's postcondition applied at a call site
		r := ghostKey(args[0])
		if fr.oldSt != nil {
			if a, ok := fr.oldSt.heap["Alloc"]; ok {
				return tOr(tEq(r, null), app("bvuge", e.birth(r), a)), false
			}
		}
		return tOr(tEq(r, null), e.freshAtEntry(r)), false
	case name == "spec_sameslice":
		a, aok := args[0].(*IfaceV)
		b, bok := args[1].(*IfaceV)
		if aok && bok {
			if sa, ok := a.Boxed.(*SliceV); ok {
				if sb, ok := b.Boxed.(*SliceV); ok {
					return tAnd(tEq(sa.B, sb.B), tEq(sa.O, sb.O), tEq(sa.L, sb.L), tEq(sa.C, sb.C)), false
				}
			}
			// two strings: the very same string value (header), which implies equal contents
			if sa, ok := a.Boxed.(*StrV); ok {
				if sb, ok := b.Boxed.(*StrV); ok {
					return tAnd(tEq(sa.B, sb.B), tEq(sa.O, sb.O), tEq(sa.L, sb.L)), false
				}
			}
		}
		panic(unsupportedErr{"spec_sameslice needs two slices"})
	case name == "spec_sameref":
		return tEq(ghostKey(args[0]), ghostKey(args[1])), false
	case name == "spec_allocated":
		r := ghostKey(args[0])
		return tOr(tEq(r, null), e.allocatedIn(st, r)), false
	case strings.HasPrefix(name, "G_"):
		return e.ghostRead(fr, st, fn, args, argTaint), false
	}
	if !fr.pure {
		panic(unsupportedErr{"call of spec function " + name + " from code"})
	}
	v, t, _ := e.evalPureSide(fn, args, argTaint, bind, bindTaint, st, fr.oldSt, fr.depth+1, fr.side)
	return v, t
}

func dedup(ts []T) []T {
	seen := map[T]bool{}
	var out []T
	for _, t := range ts {
		if !seen[t] {
			seen[t] = true
			out = append(out, t)
		}
	}
	return out
}

func ghostKey(v Val) T {
	switch x := v.(type) {
	case *IfaceV:
		if x.Boxed != nil {
			if _, isIface := x.Boxed.(*IfaceV); isIface {
				return ghostKey(x.Boxed)
			}
			if isRefVal(x.Boxed) {
				return refOf(x.Boxed)
			}
			if s, ok := x.Boxed.(*SliceV); ok {
				return s.B
			}
			if s, ok := x.Boxed.(*StrV); ok {
				return s.B
			}
		}
		return x.V
	case *SliceV:
		return x.B
	case *StrV:
		return x.B
	}
	return refOf(v)
}

func isRefVal(v Val) bool {
	switch v.(type) {
	case *PtrV, *MapV, *FuncV, T:
		return true
	}
	return false
}

func (e *Eng) ghostRead(fr *Frame, st *State, fn *ssa.Function, args []Val, argTaint []bool) Val {
	rt := fn.Signature.Results().At(0).Type()
	name := "G|" + strings.TrimPrefix(fn.Name(), "G_")
	hs := st
	if strings.HasSuffix(name, "__old") {
		name = strings.TrimSuffix(name, "__old")
		hs = e.heapFor(fr, st, true)
	}
	// old(G_x(a)): the argument is tainted
	for _, t := range argTaint {
		if t {
			hs = e.heapFor(fr, st, true)
		}
	}
	var v Val
	if len(args) == 0 {
		v = e.hload(hs, name, nil, rt)
	} else {
		v = e.hload(hs, name, []T{ghostKey(args[0])}, rt)
	}
	// history ghosts of type int are counters of events: they are mathematical naturals, modelled as 64-bit
	// values that stay below 2^62 (stated as a fact about every value read outside binders)
	if b, ok := under(rt).(*types.Basic); ok && b.Kind() == types.Int && fr.side != nil && e.binderDepth == 0 {
		if t, ok := v.(T); ok {
			*fr.side = append(*fr.side, tAnd(app("bvsle", i64(0), t), app("bvslt", t, bvLit(64, 1<<62))))
			e.note("history ghosts of type int are event counters: mathematical naturals modelled as 64-bit values below 2^62")
		}
	}
	return v
}

func (e *Eng) pureIfaceCall(fr *Frame, st *State, key string, recv *IfaceV, sig *types.Signature, tainted bool) Val {
	res := sig.Results()
	if res.Len() != 1 {
		panic(unsupportedErr{"spec calls interface method with != 1 result: " + key})
	}
	cs := comps(res.At(0).Type())
	ts := make([]T, len(cs))
	for i, c := range cs {
		f := e.q.DeclareFun("ifn|"+key+c.suffix, []string{sTag, sRef}, c.sort)
		ts[i] = app(f, recv.Ty, recv.V)
	}
	v, _ := unflat(res.At(0).Type(), ts)
	return v
}

// ---------------------------------------------------------------------------
// contracts at call sites

func (e *Eng) applyContract(fr *Frame, st *State, instr ssa.Instruction, fc *FuncContract, key string, args []Val, sig *types.Signature, mode string) Val {
	if fc.Extern || fc.Iface || fc.Trusted != "" {
		e.trustedUse["contract:"+key] = true
	}
	disp := key
	if fn := e.w.FnOf[fc]; fn != nil {
		disp = fnDisplayName(fn)
	}
	// a call that waits for a peer must not be made while a package-level lock is held (one stalled peer would
	// stop every other session at that lock)
	if fc.Blocks != "" && !fr.pure && !e.collect && mode != "go" {
		if _, used := e.heapNames["G|holds_globallock"]; used {
			held := e.heapTerm(st, "G|holds_globallock", "Bool")
			e.oblige(st, "lock.blocking", "["+disp0(e, fc, key)+"]", e.allProps(), tNot(held), instr, "no package-level lock is held across a call that "+fc.Blocks)
		}
		if _, used := e.heapNames["G|holds_objectlock"]; used {
			held := e.heapTerm(st, "G|holds_objectlock", "Bool")
			e.oblige(st, "lock.blocking", "["+disp0(e, fc, key)+"].objectlock", e.allProps(), tNot(held), instr, "no mutex taken in this function is still held across a call that "+fc.Blocks)
		}
		// ... nor on a loop that accepts peers or streams (the tokens named *accept_loop): everybody who
		// connects afterwards would wait for this one peer
		var toks []string
		for n := range e.heapNames {
			if strings.HasPrefix(n, "G|holds_") && strings.HasSuffix(n, "accept_loop") {
				toks = append(toks, n)
			}
		}
		sort.Strings(toks)
		for _, n := range toks {
			held := e.heapTerm(st, n, "Bool")
			e.oblige(st, "accept.blocking", "["+disp0(e, fc, key)+"]."+strings.TrimPrefix(n, "G|holds_"), e.allProps(), tNot(held), instr, "a loop that accepts peers makes no call that "+fc.Blocks)
		}
	}
	// results the callee's protocol obliges the caller to look at
	if len(fc.MustUse) > 0 && !fr.pure && fr.fn == e.fn && !e.collect && sig != nil {
		if call, ok := instr.(*ssa.Call); ok {
			for _, mu := range fc.MustUse {
				idx := -1
				for i := 0; i < sig.Results().Len(); i++ {
					if sig.Results().At(i).Name() == mu[0] {
						idx = i
					}
				}
				if idx < 0 {
					for i, rn := range specResultNames(fc.Sig) {
						if rn == mu[0] {
							idx = i
						}
					}
				}
				used := false
				if refs := call.Referrers(); refs != nil && idx >= 0 {
					for _, r := range *refs {
						if ex, ok := r.(*ssa.Extract); ok && ex.Index == idx {
							if er := ex.Referrers(); er != nil {
								for _, u := range *er {
									if _, dbg := u.(*ssa.DebugRef); !dbg {
										used = true
									}
								}
							}
						}
					}
				}
				if !used {
					e.oblige(st, "mustuse", "["+disp+"]."+mu[0], e.allProps(), "false", instr, "result "+mu[0]+" of "+disp+" is discarded: "+mu[1])
				}
			}
		}
	}
	// preconditions
	cst := st
	if mode == "go" {
		cst = st.clone()
		for n := range e.heapNames {
			if strings.HasPrefix(n, "G|holds_") {
				cst.heap[n] = "false"
			}
		}
	}
	for _, c := range fc.Requires {
		t := e.evalSpecArgs(c.SpecFn, args, nil, nil, cst, cst).(T)
		lab := "[" + disp + "]"
		if c.Label != "" {
			lab += ":" + c.Label
		}
		props := strings.Fields(strings.ReplaceAll(c.Property, ",", " "))
		if len(props) == 0 {
			for p := range fc.Properties {
				props = append(props, p)
			}
			sort.Strings(props)
		}
		e.oblige(st, "requires@call", lab, props, t, instr, "precondition of "+disp+": "+c.Expr)
		e.assume(st, t)
	}
	if mode == "defer-register" {
		return nil
	}
	old := st.clone()
	preN, preReach := len(e.q.asserts), st.reach
	defer func() {
		if e.collect || fr.pure || (len(fc.Ensures) == 0 && len(fc.Assumes) == 0) || mode == "go" {
			return
		}
		never := false
		for _, c := range fc.Ensures {
			if strings.TrimSpace(c.Expr) == "false" {
				never = true // the callee never returns
			}
		}
		if never {
			return
		}
		q := e.q
		o := e.addObl("cover", "after["+disp+"]", e.allProps(), e.q.Snapshot(len(e.q.asserts), st.reach, nil), instr, "the contract assumed for "+disp+" is consistent with what is known at this call", false)
		o.Cover = true
		o.PreText = func() string { return q.Snapshot(preN, preReach, nil) }
	}()
	// frame
	if !fc.HasMod || fc.StoresOnly {
		e.callFrameCheck(fr, st, instr, nil, disp, nil)
		e.havocAll(st, key)
	} else {
		for _, m := range fc.ModSpecs {
			e.applyMod(fr, st, old, instr, fc, m, args, disp)
		}
	}
	// the callee may have allocated: the allocation clock moves on (results may be fresh objects)
	if !fr.pure && !fc.Deterministic {
		now := e.allocTerm(st)
		na := e.fresh("Alloc_call", sI64)
		e.assume(st, tAnd(app("bvule", now, na), app("bvult", na, bvLit(64, 1<<62))))
		st.heap["Alloc"] = na
	}
	// results
	var results []Val
	res := sig.Results()
	for i := 0; i < res.Len(); i++ {
		var v Val
		if fc.Deterministic {
			v = e.ufResult(key, i, res.At(i).Type(), args, sig)
		} else {
			v = e.freshVal(res.At(i).Type(), fmt.Sprintf("r_%s_%d", sanitizeHint(disp), i))
		}
		e.assume(st, e.wf(res.At(i).Type(), v))
		e.assumeValAllocated(fr, st, res.At(i).Type(), v)
		results = append(results, v)
	}
	for _, c := range fc.Ensures {
		t := e.evalSpecArgs(c.SpecFn, args, results, nil, st, old).(T)
		e.assume(st, t)
	}
	switch len(results) {
	case 0:
		return nil
	case 1:
		return results[0]
	}
	return &TupleV{results}
}

func sanitizeHint(s string) string {
	r := strings.NewReplacer("(", "", ")", "", "*", "", "/", "_", " ", "")
	return r.Replace(s)
}

// modTarget is one location (set) named by a modifies entry, evaluated in some state.
type modTarget struct {
	kind string // field elems map ghost ghost0 deref global all
	fam  string // heap name prefix
	ref  T
	typ  types.Type
	ptr  *PtrV
}

func (e *Eng) evalModSpec(fc *FuncContract, m *ModSpec, args []Val, st *State) []modTarget {
	return e.evalModSpecVars(fc, m, args, nil, st)
}

func (e *Eng) evalModSpecVars(fc *FuncContract, m *ModSpec, args []Val, vars map[string]Val, st *State) []modTarget {
	switch m.Kind {
	case "all":
		return []modTarget{{kind: "all"}}
	case "ghost0":
		return []modTarget{{kind: "ghost0", fam: "G|" + strings.TrimPrefix(m.Name, "G_")}}
	case "global":
		return []modTarget{{kind: "global", fam: m.Name}}
	case "heap":
		return []modTarget{{kind: "heap", fam: m.Name}}
	}
	fn := e.w.specFn(m.SpecFn)
	if fn == nil {
		panic(unsupportedErr{"modifies spec function missing: " + m.SpecFn})
	}
	info := e.w.SpecInfo[m.SpecFn]
	var a []Val
	var taint []bool
	for _, sa := range info.Args {
		if sa.Role == "var" {
			a = append(a, vars[sa.Name])
			taint = append(taint, false)
			continue
		}
		if sa.Idx >= len(args) {
			panic(unsupportedErr{"modifies: argument count mismatch for " + fc.Key})
		}
		a = append(a, args[sa.Idx])
		taint = append(taint, false)
	}
	_, _, pr := e.evalPure(fn, a, taint, nil, nil, st, st, 0)
	if len(pr.captured) == 0 {
		panic(unsupportedErr{"modifies entry did not evaluate: " + m.Text})
	}
	iv := pr.captured[0].(*IfaceV)
	obj := iv.Boxed
	ot := iv.BoxedT
	if obj == nil {
		// the expression itself is interface-typed (no boxing happened)
		obj = iv
	}
	if m.Kind == "object" {
		if ot == nil {
			ot = iv.StaticI
		}
		return []modTarget{{kind: "object", ref: ghostKey(obj), typ: ot}}
	}
	if inner, ok := obj.(*IfaceV); ok {
		// interface-typed expression: use its dynamic value reference
		switch m.Kind {
		case "ghost":
			return []modTarget{{kind: "ghost", fam: "G|" + strings.TrimPrefix(m.Name, "G_"), ref: ghostKey(inner)}}
		}
		panic(unsupportedErr{"modifies entry on interface value: " + m.Text})
	}
	switch m.Kind {
	case "field":
		p, ok := obj.(*PtrV)
		if !ok || p.Kind != pStruct {
			panic(unsupportedErr{"modifies " + m.Text + ": object is not a struct pointer"})
		}
		stype := p.Elem
		if stype == nil {
			stype = under(ot).(*types.Pointer).Elem()
		}
		s := under(stype).(*types.Struct)
		// promoted fields through embedded structs
		ptr, ft, ok := e.findField(p, stype, s, m.Name)
		if !ok {
			panic(unsupportedErr{"modifies " + m.Text + ": no field " + m.Name})
		}
		return []modTarget{{kind: "field", ptr: ptr, typ: ft}}
	case "elems":
		switch x := obj.(type) {
		case *SliceV:
			return []modTarget{{kind: "elems", fam: "E|" + elemKey(under(ot).(*types.Slice).Elem()), ref: x.B, typ: under(ot).(*types.Slice).Elem()}}
		case *MapV:
			mt := under(ot).(*types.Map)
			prefix, _, _ := e.mapHeaps(mt)
			return []modTarget{{kind: "map", fam: prefix, ref: x.Ref, typ: mt}}
		}
		panic(unsupportedErr{"modifies " + m.Text + ": not a slice or map"})
	case "ghost":
		return []modTarget{{kind: "ghost", fam: "G|" + strings.TrimPrefix(m.Name, "G_"), ref: ghostKey(obj)}}
	case "deref":
		p, ok := obj.(*PtrV)
		if !ok {
			panic(unsupportedErr{"modifies " + m.Text + ": not a pointer"})
		}
		return []modTarget{{kind: "deref", ptr: p, typ: p.Elem}}
	}
	panic(unsupportedErr{"modifies entry kind " + m.Kind})
}

func (e *Eng) findField(p *PtrV, stype types.Type, s *types.Struct, name string) (*PtrV, types.Type, bool) {
	for i := 0; i < s.NumFields(); i++ {
		if s.Field(i).Name() == name {
			return e.fieldPtr(p, stype, i), s.Field(i).Type(), true
		}
	}
	for i := 0; i < s.NumFields(); i++ {
		if s.Field(i).Embedded() {
			ft := s.Field(i).Type()
			if es, ok := under(ft).(*types.Struct); ok {
				if r, t, ok := e.findField(e.fieldPtr(p, stype, i), ft, es, name); ok {
					return r, t, true
				}
			}
		}
	}
	return nil, nil, false
}

func (e *Eng) applyMod(fr *Frame, st, old *State, instr ssa.Instruction, fc *FuncContract, m *ModSpec, args []Val, disp string) {
	for _, t := range e.evalModSpec(fc, m, args, old) {
		e.callFrameCheck(fr, st, instr, &t, disp, old)
		switch t.kind {
		case "all":
			e.havocAll(st, disp)
		case "object":
			// any field of that object (whatever its dynamic type): every field heap at that reference
			for _, n := range e.sortedHeapNames() {
				if strings.HasPrefix(n, "F|") && strings.HasPrefix(e.heapNames[n], "(Array "+sRef+" ") && !e.w.immutableHeap(n) {
					tn := n[2:]
					tn = tn[:strings.LastIndex(tn, "|")]
					if t.typ != nil {
						if it, ok := under(t.typ).(*types.Interface); ok && it.NumMethods() > 0 {
							// interface-typed object: its dynamic type implements the interface
							if nt := e.w.namedType(tn); nt != nil && !types.Implements(types.NewPointer(nt), it) && !types.Implements(nt, it) {
								continue
							}
						}
						if pt, ok := under(t.typ).(*types.Pointer); ok {
							if _, ok := under(pt.Elem()).(*types.Struct); ok {
								// statically typed object: only the field heaps of that struct type
								if typeName(pt.Elem()) == tn {
									st.heap[n] = app("store", st.heap[n], t.ref, e.fresh("modobj", elemSortOf(e.heapNames[n])))
									e.modified[n] = true
								}
								continue
							}
						}
					}
					st.heap[n] = app("ite", tEq(e.rtypeOf(t.ref), e.structTagByName(tn)), app("store", st.heap[n], t.ref, e.fresh("modobj", elemSortOf(e.heapNames[n]))), st.heap[n])
					e.modified[n] = true
				}
			}
		case "field", "deref":
			nv := e.freshVal(t.typ, "mod")
			e.assume(st, e.wf(t.typ, nv))
			e.assumeValAllocated(fr, st, t.typ, nv)
			e.storePtr(fr, st, t.ptr, t.typ, nv)
		case "elems":
			for _, c := range comps(t.typ) {
				name := t.fam + c.suffix
				h := e.heapTerm(st, name, heapSortFor(idxSorts(2), c.sort))
				st.heap[name] = app("store", h, t.ref, e.fresh("modrow", arrSort(sI64, c.sort)))
				e.modified[name] = true
			}
		case "map":
			mt := t.typ.(*types.Map)
			_, ks, _ := e.mapHeaps(mt)
			for _, c := range comps(mt.Elem()) {
				name := t.fam + c.suffix
				h := e.heapTerm(st, name, arrSort(sRef, arrSort(ks, c.sort)))
				st.heap[name] = app("store", h, t.ref, e.fresh("modmap", arrSort(ks, c.sort)))
				e.modified[name] = true
			}
			name := t.fam + "#present"
			h := e.heapTerm(st, name, arrSort(sRef, arrSort(ks, sBool)))
			st.heap[name] = app("store", h, t.ref, e.fresh("modmapp", arrSort(ks, sBool)))
			e.modified[name] = true
		case "ghost":
			g := e.w.Ghosts["G_"+strings.TrimPrefix(t.fam, "G|")]
			rt := e.ghostType(g)
			for _, c := range comps(rt) {
				name := t.fam + c.suffix
				h := e.heapTerm(st, name, arrSort(sRef, c.sort))
				st.heap[name] = app("store", h, t.ref, e.fresh("modghost", c.sort))
				e.modified[name] = true
			}
		case "ghost0":
			g := e.w.Ghosts["G_"+strings.TrimPrefix(t.fam, "G|")]
			rt := e.ghostType(g)
			for _, c := range comps(rt) {
				name := t.fam + c.suffix
				e.heapTerm(st, name, c.sort)
				st.heap[name] = e.fresh("modghost", c.sort)
				e.modified[name] = true
			}
		case "heap":
			for _, n := range e.sortedHeapNames() {
				if n == t.fam || (strings.HasPrefix(n, t.fam) && strings.ContainsAny(n[len(t.fam):len(t.fam)+1], "#.[@")) {
					st.heap[n] = e.fresh("modheap", e.heapNames[n])
					e.modified[n] = true
				}
			}
		case "global":
			for n, srt := range e.heapNames {
				if globalMatches(n, t.fam) {
					st.heap[n] = e.fresh("modglob", srt)
					e.modified[n] = true
				}
			}
		}
	}
}

func (e *Eng) ghostType(g *GhostDecl) types.Type {
	if g == nil {
		return types.Typ[types.Bool]
	}
	switch g.Result {
	case "bool":
		return types.Typ[types.Bool]
	case "int":
		return types.Typ[types.Int]
	case "uint16":
		return types.Typ[types.Uint16]
	case "uint64":
		return types.Typ[types.Uint64]
	case "byte", "uint8":
		return types.Typ[types.Uint8]
	}
	// look the stub up for its precise type
	for _, sp := range e.w.SsaPkgs {
		if f := sp.Func(g.Name); f != nil {
			return f.Signature.Results().At(0).Type()
		}
	}
	return types.Typ[types.Int]
}

// ---------------------------------------------------------------------------
// frame checking inside a function that declares `modifies`

func (e *Eng) ownTargets() []modTarget {
	if e.fc == nil || !e.fc.HasMod {
		return nil
	}
	if e.ownMods != nil {
		return e.ownMods
	}
	e.ownMods = []modTarget{}
	for _, m := range e.fc.ModSpecs {
		e.ownMods = append(e.ownMods, e.evalModSpec(e.fc, m, e.params, e.entry)...)
	}
	return e.ownMods
}

func (e *Eng) frameProps() []string { return e.allProps() }

func (e *Eng) freshAtEntry(r T) T {
	return app("bvuge", e.birth(r), e.entry.heap["Alloc"])
}

// A frame is a set of locations that may be written: the function's modifies clause, or the modifies
// clause of an enclosing loop.  Objects allocated after the frame was entered are always writable.
type frame struct {
	label   string
	targets []modTarget
	since   T // value of the allocation clock when the frame was entered
}

func (e *Eng) frameActive(fr *Frame) bool {
	return !fr.pure && e.fc != nil && e.fc.Trusted == "" && e.entry != nil && len(e.activeFrames(fr)) > 0
}

func (e *Eng) activeFrames(fr *Frame) []frame {
	if fr.pure || e.fc == nil || e.entry == nil || fr.fn != e.fn {
		return nil
	}
	var out []frame
	if e.fc.HasMod {
		out = append(out, frame{"", e.ownTargets(), e.entry.heap["Alloc"]})
	}
	if e.curInstr != nil && e.curInstr.Block() != nil {
		b := e.curInstr.Block()
		for _, li := range e.loopList {
			if li.spec != nil && li.spec.HasMod && li.body[b] && li.modReady {
				out = append(out, frame{fmt.Sprintf("loop%d", li.ord), li.modTargets, li.headState.heap["Alloc"]})
			}
		}
	}
	return out
}

type writeDesc struct {
	kind string // field elems map cell global ghost ghost0 arr
	fam  string
	ref  T
	ptr  *PtrV
}

// allowed: condition under which the write w is inside the frame f ("" = always allowed).
func (e *Eng) allowed(f frame, w writeDesc) (T, bool) {
	var ok []T
	for _, t := range f.targets {
		if t.kind == "all" {
			return "", true
		}
	}
	if w.ref != "" && w.kind != "global" && w.kind != "ghost0" {
		// objects created after the frame was entered; a write through the null reference panics before it writes
		ok = append(ok, app("bvuge", e.birth(w.ref), f.since), tEq(w.ref, null))
	}
	for _, t := range f.targets {
		if t.kind == "object" && w.kind == "field" {
			ok = append(ok, tEq(t.ref, w.ref))
		}
		switch w.kind {
		case "heap":
			if t.kind == "heap" && t.fam == w.fam {
				return "", true
			}
		case "field":
			if t.kind == "heap" && (w.fam == t.fam || (strings.HasPrefix(w.fam, t.fam) && strings.ContainsAny(w.fam[len(t.fam):len(t.fam)+1], "#.[@"))) {
				return "", true
			}
			if t.kind == "field" && t.ptr.Kind == pField && t.ptr.Fam == w.fam {
				ok = append(ok, tEq(t.ptr.Ref, w.ref))
			}
			if t.kind == "field" && t.ptr.Kind == pStruct {
				ok = append(ok, tEq(t.ptr.Ref, w.ref))
			}
		case "elems":
			if t.kind == "elems" && t.fam == w.fam {
				ok = append(ok, tEq(t.ref, w.ref))
			}
		case "map":
			if t.kind == "map" {
				ok = append(ok, tEq(t.ref, w.ref))
			}
		case "cell":
			if t.kind == "deref" && t.ptr.Kind == pCell {
				ok = append(ok, tEq(t.ptr.Ref, w.ref))
			}
		case "global":
			if t.kind == "global" && globalMatches(w.fam, t.fam) {
				return "", true
			}
		case "ghost":
			if t.kind == "ghost" && t.fam == w.fam {
				ok = append(ok, tEq(t.ref, w.ref))
			}
		case "ghost0":
			if t.kind == "ghost0" && t.fam == w.fam {
				return "", true
			}
		case "object":
			if t.kind == "object" {
				ok = append(ok, tEq(t.ref, w.ref))
			}
		}
	}
	return tOr(ok...), false
}

func (e *Eng) checkWrite(fr *Frame, st *State, w writeDesc, in ssa.Instruction, what string, unless T) {
	for _, f := range e.activeFrames(fr) {
		goal, skip := e.allowed(f, w)
		if skip {
			continue
		}
		if unless != "" {
			goal = tOr(unless, goal)
		}
		kind := "frame"
		lab := ""
		if f.label != "" {
			lab = f.label
		}
		e.oblige(st, kind, lab, e.frameProps(), goal, in, what+" stays within the "+frameName(f)+" modifies clause")
	}
}

func frameName(f frame) string {
	if f.label == "" {
		return "function's"
	}
	return f.label + "'s"
}

func (e *Eng) checkFrameStore(fr *Frame, st *State, p *PtrV, in ssa.Instruction) {
	if !e.frameActive(fr) || p.Kind == pLocal {
		return
	}
	switch p.Kind {
	case pStruct:
		s := under(p.Elem).(*types.Struct)
		for i := 0; i < s.NumFields(); i++ {
			e.checkFrameStore(fr, st, e.fieldPtr(p, p.Elem, i), in)
		}
	case pField:
		e.checkWrite(fr, st, writeDesc{kind: "field", fam: p.Fam, ref: p.Ref}, in, "store", "")
	case pElem:
		e.checkWrite(fr, st, writeDesc{kind: "elems", fam: p.Fam, ref: p.Ref}, in, "element store", "")
	case pArr:
		e.checkWrite(fr, st, writeDesc{kind: "arr", ref: p.Ref}, in, "array store", "")
	case pCell:
		e.checkWrite(fr, st, writeDesc{kind: "cell", fam: p.Fam, ref: p.Ref}, in, "store through pointer", "")
	case pGlobal:
		e.checkWrite(fr, st, writeDesc{kind: "global", fam: p.Fam}, in, "store to package variable", "")
	}
}

func (e *Eng) checkFrameElems(fr *Frame, st *State, base T, key string, in ssa.Instruction) {
	if !e.frameActive(fr) {
		return
	}
	e.checkWrite(fr, st, writeDesc{kind: "elems", fam: "E|" + key, ref: base}, in, "element store", "")
}

func (e *Eng) checkFrameElemsCond(fr *Frame, st *State, base T, key string, in ssa.Instruction, unless T) {
	if !e.frameActive(fr) {
		return
	}
	e.checkWrite(fr, st, writeDesc{kind: "elems", fam: "E|" + key, ref: base}, in, "copy destination", unless)
}

func (e *Eng) checkFrameMap(fr *Frame, st *State, m *MapV, in ssa.Instruction) {
	if !e.frameActive(fr) {
		return
	}
	e.checkWrite(fr, st, writeDesc{kind: "map", ref: m.Ref}, in, "map update", "")
}

// callFrameCheck: the callee's modifies target t (nil = everything) must be allowed by every active frame.
func (e *Eng) callFrameCheck(fr *Frame, st *State, in ssa.Instruction, t *modTarget, callee string, old *State) {
	if !e.frameActive(fr) {
		return
	}
	if e.fc != nil && e.fc.StoresOnly && len(e.activeFrames(fr)) == 1 {
		return // the function's frame speaks about its own stores only
	}
	if t == nil || t.kind == "all" {
		for _, f := range e.activeFrames(fr) {
			all := false
			for _, o := range f.targets {
				if o.kind == "all" {
					all = true
				}
			}
			if !all {
				e.oblige(st, "frame", strings.TrimPrefix(f.label+"["+callee+"]", ""), e.frameProps(), "false", in, "callee may modify anything but the "+frameName(f)+" frame is restricted")
			}
		}
		return
	}
	switch t.kind {
	case "object":
		e.checkWrite(fr, st, writeDesc{kind: "object", ref: t.ref}, in, "object written by "+callee, "")
	case "field", "deref":
		e.checkFrameStore(fr, st, t.ptr, in)
	case "elems":
		e.checkFrameElems(fr, st, t.ref, strings.TrimPrefix(t.fam, "E|"), in)
	case "map":
		e.checkFrameMap(fr, st, &MapV{t.ref}, in)
	case "ghost":
		e.checkWrite(fr, st, writeDesc{kind: "ghost", fam: t.fam, ref: t.ref}, in, "ghost update by "+callee, "")
	case "ghost0":
		e.checkWrite(fr, st, writeDesc{kind: "ghost0", fam: t.fam}, in, "ghost update by "+callee, "")
	case "global":
		e.checkWrite(fr, st, writeDesc{kind: "global", fam: "Glob|x." + t.fam + "|"}, in, "package variable written by "+callee, "")
	case "heap":
		e.checkWrite(fr, st, writeDesc{kind: "heap", fam: t.fam}, in, "field of any object written by "+callee, "")
	}
}

func (e *Eng) frameObligations(st *State) {}

// ---------------------------------------------------------------------------
// defer

func (e *Eng) doDefer(fr *Frame, st *State, in *ssa.Defer) {
	d := &deferred{guard: st.reach, call: &in.Call, instr: in}
	for _, a := range in.Call.Args {
		d.args = append(d.args, e.val(fr, a))
	}
	d.fnv = e.val(fr, in.Call.Value)
	st.defers = append(st.defers, d)
}

func (e *Eng) runDefers(fr *Frame, st *State, in *ssa.RunDefers) {
	for i := len(st.defers) - 1; i >= 0; i-- {
		d := st.defers[i]
		// Evaluate the deferred call now; the arguments were fixed at defer time.
		tmp := &Frame{fn: fr.fn, vals: map[ssa.Value]Val{}, pure: false}
		for k, v := range fr.vals {
			tmp.vals[k] = v
		}
		for j, a := range d.call.Args {
			tmp.vals[a] = d.args[j]
		}
		if d.guard == st.reach || d.guard == "true" || len(e.fn.Blocks) == 1 {
			e.doCall(tmp, st, d.instr, d.call, "call")
			continue
		}
		before := st.clone()
		sub := st.clone()
		sub.reach = tAnd(st.reach, d.guard)
		e.doCall(tmp, sub, d.instr, d.call, "call")
		for n, t := range sub.heap {
			if before.heap[n] != t {
				st.heap[n] = tIte(d.guard, t, before.heap[n])
			}
		}
	}
	st.defers = nil
}

// ---------------------------------------------------------------------------
// builtins

func (e *Eng) builtin(fr *Frame, st *State, instr ssa.Instruction, name string, cc *ssa.CallCommon, args []Val) Val {
	switch name {
	case "len":
		switch x := args[0].(type) {
		case *SliceV:
			return x.L
		case *StrV:
			return x.L
		case *MapV:
			mt := under(cc.Args[0].Type()).(*types.Map)
			prefix, _, ok := e.mapHeaps(mt)
			if !ok {
				l := e.fresh("maplen", sI64)
				e.assume(st, app("bvsle", i64(0), l))
				return l
			}
			h := e.heapTerm(e.heapFor(fr, st, fr.pure && fr.taint[cc.Args[0]]), prefix+"#len", arrSort(sRef, sI64))
			l := tSel(h, x.Ref)
			if !fr.pure {
				e.assume(st, tAnd(app("bvsle", i64(0), l), app("bvsle", l, i64(maxLen))))
				// an empty map has no present key is not modelled; len is tracked coarsely
			}
			return l
		case *ArrV:
			return i64(under(cc.Args[0].Type()).(*types.Array).Len())
		case *PtrV:
			return i64(under(x.Elem).(*types.Array).Len())
		case T:
			l := e.fresh("chanlen", sI64)
			e.assume(st, app("bvsle", i64(0), l))
			return l
		}
	case "cap":
		switch x := args[0].(type) {
		case *SliceV:
			return x.C
		case *PtrV:
			return i64(under(x.Elem).(*types.Array).Len())
		case T:
			l := e.fresh("chancap", sI64)
			e.assume(st, app("bvsle", i64(0), l))
			return l
		}
	case "append":
		return e.doAppend(fr, st, instr, cc, args)
	case "copy":
		return e.doCopy(fr, st, instr, cc, args)
	case "delete":
		m := args[0].(*MapV)
		mt := under(cc.Args[0].Type()).(*types.Map)
		prefix, ks, ok := e.mapHeaps(mt)
		if ok {
			key := e.mapKey(mt.Key(), args[1])
			e.checkFrameMap(fr, st, m, instr)
			name := prefix + "#present"
			h := e.heapTerm(st, name, arrSort(sRef, arrSort(ks, sBool)))
			st.heap[name] = tSto(h, []T{m.Ref, key}, "false")
			e.modified[name] = true
			ln := prefix + "#len"
			hl := e.heapTerm(st, ln, arrSort(sRef, sI64))
			nl := e.fresh("maplen", sI64)
			e.assume(st, tAnd(app("bvsle", i64(0), nl), app("bvsle", nl, i64(maxLen))))
			st.heap[ln] = app("store", hl, m.Ref, nl)
			e.modified[ln] = true
		}
		return nil
	case "print", "println":
		return nil
	case "close":
		return nil
	case "recover":
		return &IfaceV{Ty: bvLit(32, 0), V: null}
	case "min", "max":
		t := cc.Args[0].Type()
		w, signed := intInfo(t)
		if w == 0 {
			break
		}
		acc := args[0].(T)
		for _, a := range args[1:] {
			op := "bvult"
			if signed {
				op = "bvslt"
			}
			if name == "min" {
				acc = tIte(app(op, a.(T), acc), a.(T), acc)
			} else {
				acc = tIte(app(op, acc, a.(T)), a.(T), acc)
			}
		}
		return acc
	case "ssa:wrapnilchk":
		return args[0]
	}
	if fr.pure {
		panic(unsupportedErr{"builtin " + name + " in spec"})
	}
	e.note("builtin " + name + ": havoc result")
	if v, ok := instr.(ssa.Value); ok {
		return e.freshVal(v.Type(), name)
	}
	return nil
}

// doAppend models append(s, t...) including the in-place / reallocating case split.
func (e *Eng) doAppend(fr *Frame, st *State, instr ssa.Instruction, cc *ssa.CallCommon, args []Val) Val {
	if fr.pure {
		panic(unsupportedErr{"append in spec"})
	}
	s := args[0].(*SliceV)
	et := under(cc.Args[0].Type()).(*types.Slice).Elem()
	var tb, to, tl T
	srcIsStr := false
	switch x := args[1].(type) {
	case *SliceV:
		tb, to, tl = x.B, x.O, x.L
	case *StrV:
		tb, to, tl = x.B, x.O, x.L
		srcIsStr = true
	}
	newLen := app("bvadd", s.L, tl)
	fits := app("bvsle", newLen, s.C)
	nr := e.newRef(fr, st, "append")
	nc := e.fresh("appendcap", sI64)
	e.assume(st, tAnd(app("bvsle", newLen, nc), app("bvsle", nc, i64(maxLen))))
	// Modelling choice: a reallocated backing array keeps the data at the same offset as the old one
	// (absolute offsets are unobservable), so its row is the old row plus the appended elements.
	// Elements between len and cap of a reallocated array are therefore not known to be zero.
	resB := e.fresh("append#b", sRef)
	e.assume(st, tEq(resB, tIte(fits, s.B, nr)))
	resC := tIte(fits, s.C, nc)
	res := &SliceV{B: resB, O: s.O, L: newLen, C: resC}
	e.note("append: elements between len and cap of a reallocated backing array are not modelled as zero")
	// in-place writes touch s's backing array: frame check (only when it may happen)
	if lv, ok := litValue(tl); !(ok && lv == 0) {
		e.checkFrameElemsCond(fr, st, s.B, elemKey(et), instr, tOr(tNot(fits), tEq(tl, i64(0))))
	}
	for _, c := range comps(et) {
		name := "E|" + elemKey(et) + c.suffix
		h := e.heapTerm(st, name, heapSortFor(idxSorts(2), c.sort))
		srcRow := func(k T) T { // element k of the appended part
			if srcIsStr {
				return tSel("StrData", tb, app("bvadd", to, k))
			}
			return tSel(h, tb, app("bvadd", to, k))
		}
		oldRow := app("select", h, s.B)
		start := app("bvadd", s.O, s.L)
		if n, ok := litValue(tl); ok && n <= 16 {
			row := oldRow
			for k := uint64(0); k < n; k++ {
				row = app("store", row, app("bvadd", start, i64(int64(k))), srcRow(i64(int64(k))))
			}
			st.heap[name] = app("store", h, resB, row)
		} else {
			newRow := e.fresh("approw", arrSort(sI64, c.sort))
			if !e.collect {
				e.nfresh++
				kq := fmt.Sprintf("k!%d", e.nfresh)
				e.quantified = true
				hi := app("bvadd", s.O, newLen)
				// absolute index j: inside [start, hi) the appended elements, elsewhere the old row
				srcAt := srcRow(app("bvsub", kq, start))
				e.assume(st, fmt.Sprintf("(forall ((%s %s)) (! (= (select %s %s) (ite (and (bvsle %s %s) (bvslt %s %s)) %s (select %s %s))) :pattern ((select %s %s))))",
					kq, sI64, newRow, kq, start, kq, kq, hi, srcAt, oldRow, kq, newRow, kq))
			}
			st.heap[name] = app("store", h, resB, newRow)
		}
		e.modified[name] = true
	}
	return res
}

func (e *Eng) doCopy(fr *Frame, st *State, instr ssa.Instruction, cc *ssa.CallCommon, args []Val) Val {
	if fr.pure {
		panic(unsupportedErr{"copy in spec"})
	}
	d := args[0].(*SliceV)
	et := under(cc.Args[0].Type()).(*types.Slice).Elem()
	var sb, so, sl T
	srcIsStr := false
	switch x := args[1].(type) {
	case *SliceV:
		sb, so, sl = x.B, x.O, x.L
	case *StrV:
		sb, so, sl = x.B, x.O, x.L
		srcIsStr = true
	}
	n := tIte(app("bvslt", d.L, sl), d.L, sl)
	nn := e.fresh("copyn", sI64)
	e.assume(st, tEq(nn, n))
	e.checkFrameElemsCond(fr, st, d.B, elemKey(et), instr, tEq(nn, i64(0)))
	for _, c := range comps(et) {
		name := "E|" + elemKey(et) + c.suffix
		h := e.heapTerm(st, name, heapSortFor(idxSorts(2), c.sort))
		oldRow := app("select", h, d.B)
		newRow := e.fresh("copyrow", arrSort(sI64, c.sort))
		src := func(k T) T {
			if srcIsStr {
				return tSel("StrData", sb, app("bvadd", so, k))
			}
			return tSel(h, sb, app("bvadd", so, k))
		}
		if !e.collect {
			e.nfresh++
			kq := fmt.Sprintf("k!%d", e.nfresh)
			e.quantified = true
			hi := app("bvadd", d.O, nn)
			e.assume(st, fmt.Sprintf("(forall ((%s %s)) (! (= (select %s %s) (ite (and (bvsle %s %s) (bvslt %s %s)) %s (select %s %s))) :pattern ((select %s %s))))",
				kq, sI64, newRow, kq, d.O, kq, kq, hi, src(app("bvsub", kq, d.O)), oldRow, kq, newRow, kq))
		}
		st.heap[name] = app("store", h, d.B, newRow)
		e.modified[name] = true
	}
	return nn
}

// nativeModel: built-in models of a few library functions (trusted; listed in evidence).
func (e *Eng) nativeModel(fr *Frame, st *State, instr ssa.Instruction, fn *ssa.Function, args []Val) (Val, bool) {
	return nil, false
}


// globalMatches: heap names of package-level variables are "Glob|<pkgpath>.<name>|<component>".
func globalMatches(heapName, varName string) bool {
	if !strings.HasPrefix(heapName, "Glob|") {
		return false
	}
	rest := heapName[5:]
	i := strings.Index(rest, "|")
	if i < 0 {
		return false
	}
	full := rest[:i]
	return full == varName || strings.HasSuffix(full, "."+varName)
}


// selectPatterns proposes e-matching triggers for a quantified body: the array reads (select A I) whose
// index mentions every bound variable while the array does not mention any.
func selectPatterns(body string, vars []string) []string {
	var out []string
	seen := map[string]bool{}
	mentions := func(t string, v string) bool {
		i := 0
		for {
			k := strings.Index(t[i:], v)
			if k < 0 {
				return false
			}
			k += i
			end := k + len(v)
			if (k == 0 || !isSymChar(t[k-1])) && (end == len(t) || !isSymChar(t[end])) {
				return true
			}
			i = end
		}
	}
	for i := 0; i+8 < len(body); i++ {
		if !strings.HasPrefix(body[i:], "(select ") {
			continue
		}
		e := matchParen(body, i)
		if e < 0 {
			continue
		}
		term := body[i : e+1]
		// split args
		inner := term[len("(select ") : len(term)-1]
		var a, idx string
		if strings.HasPrefix(inner, "(") {
			k := matchParen(inner, 0)
			if k < 0 {
				continue
			}
			a, idx = inner[:k+1], strings.TrimSpace(inner[k+1:])
		} else if strings.HasPrefix(inner, "|") {
			k := strings.Index(inner[1:], "|") + 1
			a, idx = inner[:k+1], strings.TrimSpace(inner[k+1:])
		} else {
			k := strings.Index(inner, " ")
			if k < 0 {
				continue
			}
			a, idx = inner[:k], strings.TrimSpace(inner[k+1:])
		}
		ok := true
		for _, v := range vars {
			if !mentions(idx, v) || mentions(a, v) {
				ok = false
			}
		}
		if strings.Contains(term, "(forall ") || strings.Contains(term, "(exists ") || strings.Contains(idx, "(ite ") {
			ok = false
		}
		if ok && !seen[term] && len(out) < 4 {
			seen[term] = true
			out = append(out, term)
		}
	}
	return out
}

func isSymChar(c byte) bool {
	return c == '_' || c == '!' || c == '.' || c == '#' || c >= '0' && c <= '9' || c >= 'a' && c <= 'z' || c >= 'A' && c <= 'Z'
}


// absoluteReindex looks for a read (select A (bvadd OFF k)) with k the bound variable, OFF and A free of k,
// and rewrites the body with k := k - OFF, so that the read becomes (select A k).
func absoluteReindex(body, k string) (string, string, bool) {
	pats := selectPatterns(body, []string{k})
	for _, term := range pats {
		inner := term[len("(select ") : len(term)-1]
		var a, idx string
		if strings.HasPrefix(inner, "(") {
			j := matchParen(inner, 0)
			a, idx = inner[:j+1], strings.TrimSpace(inner[j+1:])
		} else if strings.HasPrefix(inner, "|") {
			j := strings.Index(inner[1:], "|") + 1
			a, idx = inner[:j+1], strings.TrimSpace(inner[j+1:])
		} else {
			j := strings.Index(inner, " ")
			a, idx = inner[:j], strings.TrimSpace(inner[j+1:])
		}
		// idx must be exactly (bvadd OFF k)
		if !strings.HasPrefix(idx, "(bvadd ") || !strings.HasSuffix(idx, " "+k+")") {
			continue
		}
		off := strings.TrimSpace(idx[len("(bvadd ") : len(idx)-len(k)-2])
		if off == "" || !balancedTerm(off) {
			continue
		}
		// substitute: first the whole index by k, then the remaining k by (bvsub k off)
		const mark = "\x00IDX\x00"
		nb := strings.ReplaceAll(body, idx, mark)
		nb = replaceSym(nb, k, "(bvsub "+k+" "+off+")")
		nb = strings.ReplaceAll(nb, mark, k)
		return nb, "(select " + a + " " + k + ")", true
	}
	return "", "", false
}

func balancedTerm(t string) bool {
	d := 0
	for i := 0; i < len(t); i++ {
		switch t[i] {
		case '(':
			d++
		case ')':
			d--
			if d < 0 {
				return false
			}
		case ' ':
			if d == 0 {
				return false
			}
		}
	}
	return d == 0
}

// replaceSym replaces whole-symbol occurrences of sym.
func replaceSym(t, sym, with string) string {
	var b strings.Builder
	for i := 0; i < len(t); {
		k := strings.Index(t[i:], sym)
		if k < 0 {
			b.WriteString(t[i:])
			break
		}
		k += i
		end := k + len(sym)
		if (k == 0 || !isSymChar(t[k-1])) && (end == len(t) || !isSymChar(t[end])) {
			b.WriteString(t[i:k])
			b.WriteString(with)
		} else {
			b.WriteString(t[i:end])
		}
		i = end
	}
	return b.String()
}


// stableGlobal: package-level variables mentioned by a package invariant are never written outside
// their package initialiser (obligation pkginv.stable), so no call can change them.
func (w *World) stableGlobal(heapName string) bool {
	if !strings.HasPrefix(heapName, "Glob|") {
		return false
	}
	w.stableOnce.Do(func() {
		w.stable = map[string]bool{}
		for path, cf := range w.FileOfPkg {
			for _, c := range cf.PkgInvs {
				fn := w.specFn(path + "::" + c.SpecFn)
				if fn == nil || (c.Kind == "fact" && strings.HasPrefix(c.Label, "bounded_")) {
					continue
				}
				seen := map[*ssa.Function]bool{}
				var scan func(f *ssa.Function, d int)
				scan = func(f *ssa.Function, d int) {
					if seen[f] || d > 6 {
						return
					}
					seen[f] = true
					for _, b := range f.Blocks {
						for _, in := range b.Instrs {
							for _, op := range in.Operands(nil) {
								if g, ok := (*op).(*ssa.Global); ok {
									w.stable["Glob|"+g.String()+"|"] = true
								}
								if f2, ok := (*op).(*ssa.Function); ok && isSpecGenFn(w, f2) {
									scan(f2, d+1)
								}
							}
						}
					}
					for _, af := range f.AnonFuncs {
						scan(af, d+1)
					}
				}
				scan(fn, 0)
			}
		}
	})
	rest := heapName[5:]
	i := strings.Index(rest, "|")
	if i < 0 {
		return false
	}
	return w.stable["Glob|"+rest[:i]+"|"]
}


// repoType: is t (or its pointee) a named type declared in one of the /repo packages?
func (e *Eng) repoType(t types.Type) bool {
	if p, ok := types.Unalias(t).(*types.Pointer); ok {
		t = p.Elem()
	}
	n, ok := types.Unalias(t).(*types.Named)
	if !ok || n.Obj().Pkg() == nil {
		return false
	}
	return e.w.SsaPkgs[n.Obj().Pkg().Path()] != nil
}


// localAt resolves a local variable by name at a call site: the latest debug reference to a variable of
// that name in a block dominating the call (or earlier in the same block).
// cellVar: an address-taken local variable (captured by a closure or escaping) lives in an Alloc cell named
// after it; its current value is read from memory.
func (e *Eng) cellVar(fr *Frame, st *State, name string) (Val, bool) {
	for _, b := range e.fn.Blocks {
		for _, in := range b.Instrs {
			if a, ok := in.(*ssa.Alloc); ok && a.Comment == name {
				if p, ok := fr.vals[a].(*PtrV); ok {
					return e.loadPtr(fr, st, p, p.Elem), true
				}
			}
		}
	}
	return nil, false
}

// localAtTyped resolves a local a call-site clause names.  When no variable of that name exists any more (a
// harmless rename), and exactly one variable in scope at the site has the type the clause declares for it, that
// variable is taken instead and the substitution is recorded among the run's assumptions: a renamed local then
// does not turn into a spurious "contract no longer resolves" alarm.
func (e *Eng) localAtTyped(fr *Frame, st *State, at ssa.Instruction, name string, c *Clause) (v Val) {
	defer func() {
		r := recover()
		if r == nil {
			return
		}
		ue, ok := r.(unsupportedErr)
		if !ok || c == nil {
			panic(r)
		}
		var want types.Type
		if fn := e.w.specFn(c.SpecFn); fn != nil {
			for _, p := range fn.Params {
				if p.Name() == name {
					want = p.Type()
				}
			}
		}
		if want == nil {
			panic(ue)
		}
		cands := map[string]bool{}
		ab := at.Block()
		for _, b := range e.fn.Blocks {
			if !b.Dominates(ab) {
				continue
			}
			for _, in := range b.Instrs {
				if in == at {
					break
				}
				if dr, ok := in.(*ssa.DebugRef); ok && dr.Object() != nil {
					if vo, isVar := dr.Object().(*types.Var); isVar && !dr.IsAddr && types.Identical(vo.Type(), want) {
						cands[vo.Name()] = true
					}
				}
			}
		}
		for _, p := range e.fn.Params {
			if types.Identical(p.Type(), want) {
				cands[p.Name()] = true
			}
		}
		if len(cands) != 1 {
			panic(ue)
		}
		for other := range cands {
			e.note(fmt.Sprintf("contract variable %q of %s no longer exists; the only variable of type %s in scope, %q, was taken for it", name, fnDisplayName(e.fn), types.TypeString(want, nil), other))
			v = e.localAt(fr, st, at, other)
		}
	}()
	return e.localAt(fr, st, at, name)
}

func (e *Eng) localAt(fr *Frame, st *State, at ssa.Instruction, name string) Val {
	if v, ok := e.cellVar(fr, st, name); ok {
		return v
	}
	var best ssa.Value
	var bestBlock *ssa.BasicBlock
	ab := at.Block()
	for _, b := range e.fn.Blocks {
		if !b.Dominates(ab) {
			continue
		}
		for _, in := range b.Instrs {
			if in == at {
				break
			}
			dr, ok := in.(*ssa.DebugRef)
			if !ok || dr.Object() == nil || dr.Object().Name() != name {
				continue
			}
			if _, isVar := dr.Object().(*types.Var); !isVar {
				continue
			}
			if dr.IsAddr {
				// address-taken variable: its current value is read from memory
				if p, ok := fr.vals[dr.X].(*PtrV); ok {
					return e.loadPtr(fr, st, p, p.Elem)
				}
				continue
			}
			if bestBlock == nil || bestBlock.Dominates(b) {
				best, bestBlock = dr.X, b
			}
		}
	}
	// a variable assigned on several paths reaches the call as a phi of that name
	var bestPhi *ssa.Phi
	for _, b := range e.fn.Blocks {
		if !b.Dominates(ab) {
			continue
		}
		for _, in := range b.Instrs {
			if phi, ok := in.(*ssa.Phi); ok && phi.Comment == name {
				if bestPhi == nil || bestPhi.Block().Dominates(b) {
					bestPhi = phi
				}
			}
		}
	}
	if bestPhi != nil && (bestBlock == nil || bestBlock.Dominates(bestPhi.Block())) {
		if v, ok := fr.vals[bestPhi]; ok {
			return v
		}
	}
	if best != nil {
		if v, ok := fr.vals[best]; ok {
			return v
		}
	}
	for i, p := range e.fn.Params {
		if p.Name() == name {
			return e.params[i]
		}
	}
	panic(unsupportedErr{fmt.Sprintf("callsite clause in %s: cannot resolve local %q", e.fn, name)})
}


func disp0(e *Eng, fc *FuncContract, key string) string {
	if fn := e.w.FnOf[fc]; fn != nil {
		return fnDisplayName(fn)
	}
	return key
}

// isGlobalAddr: the address of a package-level variable or of a field / element inside one.
func isGlobalAddr(v ssa.Value) bool {
	for {
		switch x := v.(type) {
		case *ssa.Global:
			return true
		case *ssa.FieldAddr:
			v = x.X
		case *ssa.IndexAddr:
			v = x.X
		default:
			return false
		}
	}
}

// specResultNames: the result names written in an extern / iface contract header "(params) (results)".
func specResultNames(sig string) []string {
	i := strings.LastIndex(sig, "(")
	if i < 0 {
		return nil
	}
	var out []string
	for _, p := range splitTop(strings.Trim(strings.TrimSpace(sig[i:]), "()"), ',') {
		f := strings.Fields(strings.TrimSpace(p))
		if len(f) > 0 {
			out = append(out, f[0])
		}
	}
	return out
}

// calleeMatches: a callsite clause names its callee by full name or by any suffix that starts at a
// package, type or function boundary ("tls.Client", "Client", "(*Conn).Handshake", "Handshake").
func calleeMatches(full, short string) bool {
	if full == short {
		return true
	}
	for _, sep := range []string{".", ").", "/"} {
		if strings.HasSuffix(full, sep+short) {
			return true
		}
	}
	return false
}


// ufResult: result i of a deterministic function as an uninterpreted function of the argument components.
func (e *Eng) ufResult(key string, i int, rt types.Type, args []Val, sig *types.Signature) Val {
	v := e.ufApply(key, i, rt, args, sig)
	// The result depends on the contents of string arguments, not on where they are stored: an argument
	// whose bytes equal a literal that the same function is applied to elsewhere (in a fact, a contract
	// clause or the code) gives the same result as that literal.
	params := sig.Params()
	off := 0
	if sig.Recv() != nil && len(args) == params.Len()+1 {
		off = 1
	}
	if e.detLits == nil {
		e.detLits = map[string]map[int]map[string]bool{}
	}
	for j := 0; j < params.Len() && j+off < len(args); j++ {
		sv, ok := args[j+off].(*StrV)
		if !ok {
			continue
		}
		if sv.Lit != nil {
			if e.detLits[key] == nil {
				e.detLits[key] = map[int]map[string]bool{}
			}
			if e.detLits[key][j] == nil {
				e.detLits[key][j] = map[string]bool{}
			}
			e.detLits[key][j][*sv.Lit] = true
			continue
		}
		if e.collect || strings.Contains(sv.B+sv.O+sv.L, "!q") {
			continue
		}
		var lits []string
		for l := range e.detLits[key][j] {
			lits = append(lits, l)
		}
		sort.Strings(lits)
		for _, l := range lits {
			if len(l) > 64 {
				continue
			}
			args2 := append([]Val{}, args...)
			args2[j+off] = e.strLit(l)
			v2 := e.ufApply(key, i, rt, args2, sig)
			f1, f2 := flat(rt, v), flat(rt, v2)
			var eqs []T
			for k := range f1 {
				eqs = append(eqs, tEq(f1[k], f2[k]))
			}
			ax := tImp(e.strEq(e.strLit(l), sv), tAnd(eqs...))
			if e.detAx == nil {
				e.detAx = map[string]bool{}
			}
			if !e.detAx[ax] {
				e.detAx[ax] = true
				e.q.Assert(ax)
			}
		}
	}
	return v
}

func (e *Eng) ufApply(key string, i int, rt types.Type, args []Val, sig *types.Signature) Val {
	var argTerms []T
	var argSorts []string
	params := sig.Params()
	off := 0
	if sig.Recv() != nil && len(args) == params.Len()+1 {
		off = 1
		for _, t := range flat(sig.Recv().Type(), args[0]) {
			argTerms = append(argTerms, t)
		}
		for _, c := range comps(sig.Recv().Type()) {
			argSorts = append(argSorts, c.sort)
		}
	}
	for j := 0; j < params.Len() && j+off < len(args); j++ {
		pt := params.At(j).Type()
		argTerms = append(argTerms, flat(pt, args[j+off])...)
		for _, c := range comps(pt) {
			argSorts = append(argSorts, c.sort)
		}
	}
	cs := comps(rt)
	ts := make([]T, len(cs))
	for k, c := range cs {
		f := e.q.DeclareFun(fmt.Sprintf("uf|%s|%d%s", key, i, c.suffix), argSorts, c.sort)
		if len(argTerms) == 0 {
			ts[k] = f
		} else {
			ts[k] = app(f, argTerms...)
		}
	}
	v, _ := unflat(rt, ts)
	return v
}


// immutableHeap: the field heap belongs to a field declared `immutable` in its package's contract file
// (obligation immutable:<Type.field>, a module-wide scan: the field is stored only into objects the
// storing function has just allocated, and its address is never taken for anything but a load).  No call
// can change such a field of an object that existed before the call.
func (w *World) immutableHeap(heapName string) bool {
	if !strings.HasPrefix(heapName, "F|") {
		return false
	}
	w.immutOnce.Do(func() {
		w.immut = map[string]bool{}
		for path, cf := range w.FileOfPkg {
			for _, c := range cf.Immutables {
				w.immut["F|"+path+"."+c.Expr[:strings.Index(c.Expr, ".")]+"|"+c.Expr[strings.Index(c.Expr, ".")+1:]] = true
			}
		}
	})
	i := strings.LastIndex(heapName, "|")
	base := heapName
	// component suffixes follow the field name and start with one of # . [ @
	if j := strings.IndexAny(heapName[i+1:], "#.[@"); j >= 0 {
		base = heapName[:i+1+j]
	}
	return w.immut[base]
}


// namedType finds a named type by "pkgpath.Name" among all loaded packages (nil if unknown).
func (w *World) namedType(name string) types.Type {
	w.namedOnce.Do(func() {
		w.named = map[string]types.Type{}
		for _, p := range w.Prog.AllPackages() {
			if p.Pkg == nil {
				continue
			}
			sc := p.Pkg.Scope()
			for _, n := range sc.Names() {
				if tn, ok := sc.Lookup(n).(*types.TypeName); ok && !tn.IsAlias() {
					w.named[p.Pkg.Path()+"."+n] = tn.Type()
				}
			}
		}
	})
	return w.named[name]
}


// callArgVar: in call-site clauses the names arg0, arg1, ... denote the call's arguments and recv the
// receiver of an interface method call.
// loopSiteVar: inside the body of a range loop, `iter` is the index of the element being processed and
// `rng` the ranged-over slice (the names loop clauses use).
func (e *Eng) loopSiteVar(fr *Frame, instr ssa.Instruction, name string) (Val, bool) {
	if name != "iter" && name != "rng" {
		return nil, false
	}
	var best *loopInfo
	for _, li := range e.loopList {
		// the loop's header dominates the call (the call may sit on a path that leaves the loop)
		if li.rangeIdx == nil || !li.header.Dominates(instr.Block()) {
			continue
		}
		if best == nil || best.header.Dominates(li.header) {
			best = li
		}
	}
	if best == nil {
		return nil, false
	}
	if name == "iter" {
		if t, ok := fr.vals[best.rangeIdx].(T); ok {
			return app("bvadd", t, i64(1)), true
		}
		return nil, false
	}
	if best.rangeVal == nil {
		return nil, false
	}
	return e.val(fr, best.rangeVal), true
}

func (e *Eng) callArgVar(fr *Frame, cc *ssa.CallCommon, name string) (Val, bool) {
	if name == "recv" && cc.IsInvoke() {
		return e.val(fr, cc.Value), true
	}
	if strings.HasPrefix(name, "arg") {
		if i, err := strconv.Atoi(name[3:]); err == nil && i >= 0 && i < len(cc.Args) {
			return e.val(fr, cc.Args[i]), true
		}
	}
	return nil, false
}
