package main

import (
	"os/exec"
	"regexp"
	"bufio"
	"encoding/json"
	"fmt"
	"os"
	"path/filepath"
	"runtime"
	"sort"
	"strconv"
	"strings"
	"sync"
	"syscall"
	"time"

	"golang.org/x/tools/go/ssa"
)

type KnownFinding struct {
	Property   string `json:"property"`
	Obligation string `json:"obligation"`
	Status     string `json:"status"` // known | fixed
	What       string `json:"what"`
	Commit     string `json:"commit,omitempty"`
	Witness    string `json:"witness,omitempty"`
}

func loadKnownFindings(path string) []KnownFinding {
	var out []KnownFinding
	f, err := os.Open(path)
	if err != nil {
		return nil
	}
	defer f.Close()
	sc := bufio.NewScanner(f)
	sc.Buffer(make([]byte, 1<<20), 1<<20)
	for sc.Scan() {
		l := strings.TrimSpace(sc.Text())
		if l == "" || strings.HasPrefix(l, "#") || strings.HasPrefix(l, "fixed:") {
			continue
		}
		var k KnownFinding
		if json.Unmarshal([]byte(l), &k) == nil {
			out = append(out, k)
		}
	}
	return out
}

type Baseline struct {
	Property   string            `json:"property"`
	Discharged []string          `json:"discharged"`
	Functions  map[string]int    `json:"functions"`
}

func hasProp(fc *FuncContract, prop string) bool {
	if fc.Properties[prop] || fc.Safe[prop] || fc.Terminates[prop] {
		return true
	}
	has := func(cs []*Clause) bool {
		for _, c := range cs {
			for _, p := range strings.Fields(strings.ReplaceAll(c.Property, ",", " ")) {
				if p == prop {
					return true
				}
			}
		}
		return false
	}
	if has(fc.Requires) || has(fc.Ensures) {
		return true
	}
	for _, l := range fc.Loops {
		if has(l.Invariants) || (l.Decreases != nil && has([]*Clause{l.Decreases})) {
			return true
		}
	}
	return false
}

func containsStr(xs []string, s string) bool {
	for _, x := range xs {
		if x == s {
			return true
		}
	}
	return false
}

func manifestLevel(verif, prop string) string {
	b, err := os.ReadFile(filepath.Join(verif, "MANIFEST.json"))
	if err != nil {
		return "proof"
	}
	var m struct {
		Checks []struct {
			PropertyID   string `json:"property_id"`
			LevelClaimed struct {
				Category string `json:"category"`
			} `json:"level_claimed"`
		} `json:"checks"`
	}
	if json.Unmarshal(b, &m) != nil {
		return "proof"
	}
	for _, c := range m.Checks {
		if c.PropertyID == prop && c.LevelClaimed.Category != "" {
			return c.LevelClaimed.Category
		}
	}
	return "proof"
}

type fnResult struct {
	fc    *FuncContract
	fn    *ssa.Function
	obls  []*Obligation
	err   error
	notes []string
	trust []string
}

func runCheck(prop, tier, repo, verif, only string, updateBaseline bool) int {
	t0 := time.Now()
	seed := 0
	if s := os.Getenv("VERIF_SEED"); s != "" {
		seed, _ = strconv.Atoi(s)
	}
	if t := os.Getenv("VERIF_TIER"); t != "" && tier == "" {
		tier = t
	}
	timeout, need := 90, 1
	if tier == "thorough" {
		timeout, need = 240, 2
	}
	if s := os.Getenv("GOVC_TIMEOUT"); s != "" {
		timeout, _ = strconv.Atoi(s)
	}
	level := manifestLevel(verif, prop)
	evPath := filepath.Join(verif, "evidence", prop+".json")
	if only != "" {
		// partial runs (debugging, replay of one obligation) must not replace the property's evidence
		evPath = filepath.Join(verif, "out", prop+"-partial", "evidence_partial.json")
		os.MkdirAll(filepath.Dir(evPath), 0o755)
	}
	os.MkdirAll(filepath.Dir(evPath), 0o755)
	replayDir := filepath.Join(verif, "replays", prop)
	os.MkdirAll(replayDir, 0o755)
	// scratch directory of this run: one per property and tier (the two tiers of a property may run at the same
	// time); a second run of the same property and tier at the same time gets its own directory
	outDir := filepath.Join(verif, "out", prop+"-"+tier)
	os.MkdirAll(filepath.Join(verif, "out"), 0o755)
	if lf, err := os.OpenFile(outDir+".lock", os.O_CREATE|os.O_RDWR, 0o644); err == nil {
		if syscall.Flock(int(lf.Fd()), syscall.LOCK_EX|syscall.LOCK_NB) != nil {
			outDir = fmt.Sprintf("%s-%d", outDir, os.Getpid())
			defer os.RemoveAll(outDir)
		}
		defer lf.Close()
	}
	os.RemoveAll(outDir)
	os.MkdirAll(outDir, 0o755)

	fail := func(msg string) int {
		// the machinery itself could not run: this is reported as a violation without input
		rp := filepath.Join(replayDir, "engine_error.json")
		b, _ := json.MarshalIndent(map[string]interface{}{"property": prop, "obligation": "engine", "error": msg}, "", " ")
		os.WriteFile(rp, b, 0o644)
		writeEvidence(evPath, map[string]interface{}{
			"property_id": prop, "tier": tier, "seed": seed, "level": level,
			"coverage": map[string]interface{}{"obligations": 0, "discharged": 0, "checker_cmd": strings.Join(os.Args, " "), "trusted_base": []string{},
				"explanation": "the verifier could not process the tree: " + msg, "evaluations": 0, "distinct_nontrivial": 0, "rule": "n/a", "samples": []string{msg}},
			"assumptions": []string{}, "wall_s": time.Since(t0).Seconds(), "violations": 1,
		})
		fmt.Println(msg)
		fmt.Printf("VIOLATION property=%s replay=%s no-failing-input-found\n", prop, rp)
		return 1
	}

	if os.Getenv("GOVC_TRUSTED_DIR") == "" {
		os.Setenv("GOVC_TRUSTED_DIR", filepath.Join(verif, "trusted"))
	}
	w, err := LoadWorld(repo, []string{"./..."})
	if err != nil {
		return fail("load: " + err.Error())
	}
	w.specFn("")
	evalAllFacts(w, outDir, prop, tier)

	// select functions
	var sel []*FuncContract
	for _, cf := range w.Files {
		for _, fc := range cf.Funcs {
			if fc.Extern || fc.Iface {
				continue
			}
			if !hasProp(fc, prop) {
				continue
			}
			if w.FnOf[fc] == nil {
				continue
			}
			if only != "" && !strings.Contains(fnDisplayName(w.FnOf[fc]), only) {
				continue
			}
			sel = append(sel, fc)
		}
	}
	results := make([]*fnResult, len(sel))
	var wg sync.WaitGroup
	sem := make(chan struct{}, runtime.NumCPU())
	for i, fc := range sel {
		wg.Add(1)
		go func(i int, fc *FuncContract) {
			defer wg.Done()
			sem <- struct{}{}
			defer func() { <-sem }()
			fn := w.FnOf[fc]
			r := &fnResult{fc: fc, fn: fn}
			results[i] = r
			if fc.Trusted != "" {
				r.notes = append(r.notes, "trusted (body not verified): "+fnDisplayName(fn)+": "+fc.Trusted)
				return
			}
			e := NewEng(w, fn, fc)
			func() {
				defer func() {
					if rec := recover(); rec != nil {
						if u, ok := rec.(unsupportedErr); ok {
							r.err = u
							return
						}
						r.err = fmt.Errorf("internal error: %v", rec)
						if os.Getenv("GOVC_DEBUG") != "" {
							panic(rec)
						}
					}
				}()
				r.obls, r.err = e.Verify()
			}()
			for n := range e.notes {
				r.notes = append(r.notes, n)
			}
			for n := range e.trustedUse {
				r.trust = append(r.trust, n)
			}
		}(i, fc)
	}
	wg.Wait()

	var obls []*Obligation
	assumptions := map[string]bool{}
	trusted := map[string]bool{}
	fuc := []string{}
	for _, r := range results {
		fuc = append(fuc, fnDisplayName(r.fn))
		for _, n := range r.notes {
			assumptions[n] = true
		}
		for _, n := range r.trust {
			trusted[n] = true
		}
		if r.err != nil {
			o := &Obligation{Name: fnDisplayName(r.fn) + "#supported", Kind: "unsupported", Func: fnDisplayName(r.fn), Properties: []string{prop}, Status: "unsupported", Raw: r.err.Error(), Unsupported: r.err.Error()}
			obls = append(obls, o)
			continue
		}
		for _, o := range r.obls {
			if containsStr(o.Properties, prop) {
				obls = append(obls, o)
			}
		}
	}
	// closed obligations (const / lemma)
	for _, cf := range w.Files {
		for _, c := range append(append([]*Clause{}, cf.Consts...), cf.Lemmas...) {
			if !containsStr(strings.Fields(strings.ReplaceAll(c.Property, ",", " ")), prop) {
				continue
			}
			o := closedObligation(w, cf, c)
			if only != "" && !strings.Contains(o.Name, only) {
				continue
			}
			obls = append(obls, o)
		}
	}
	// a contract whose target no longer exists concerns the properties that contract serves
	for i, fc := range w.UnresolvedFC {
		if !hasProp(fc, prop) {
			continue
		}
		u := fc.Key
		if i < len(w.Unresolved) {
			u = w.Unresolved[i]
		}
		obls = append(obls, &Obligation{Name: "contract.unresolved:" + fc.Key, Kind: "contract", Func: fc.Key, Properties: []string{prop}, Status: "unsupported", Raw: "contract target does not resolve: " + u, Unsupported: "unresolved", Desc: "the function, closure or loop this contract is written for no longer exists"})
	}

	var todo []*Obligation
	for _, o := range obls {
		if o.Status == "" {
			todo = append(todo, o)
		}
	}
	DischargeAll(todo, outDir, timeout, need, (runtime.NumCPU()+1)/2)

	// ---- verdicts
	kfPath := filepath.Join(verif, "known_findings.jsonl")
	if p := os.Getenv("GOVC_KNOWN_FINDINGS"); p != "" {
		kfPath = p
	}
	known := loadKnownFindings(kfPath)
	knownBy := map[string]KnownFinding{}
	for _, k := range known {
		if k.Property == prop && k.Status == "known" {
			knownBy[k.Obligation] = k
		}
	}
	var base Baseline
	basePath := filepath.Join(verif, "baseline", prop+".json")
	if d := os.Getenv("GOVC_BASELINE_DIR"); d != "" {
		basePath = filepath.Join(d, prop+".json")
	}
	if b, err := os.ReadFile(basePath); err == nil {
		json.Unmarshal(b, &base)
	}
	inBase := map[string]bool{}
	for _, n := range base.Discharged {
		inBase[n] = true
	}

	sort.Slice(obls, func(i, j int) bool { return obls[i].Name < obls[j].Name })
	nDis, nCover, nKnown, nViol, nUndecided := 0, 0, 0, 0, 0
	nCoverUnknown := 0
	var solverMs int64
	byKind := map[string]int{}
	bySolver := map[string]int{}
	var lines []string
	var oblJSON []map[string]interface{}
	var boundedNames []string
	nBoundedPass := 0
	seen := map[string]bool{}
	var covers int
	for _, o := range obls {
		seen[o.Name] = true
		solverMs += o.TimeMs
		rec := map[string]interface{}{"name": o.Name, "kind": o.Kind, "pos": o.Pos, "status": o.Status, "solver": o.Solver, "time_ms": o.TimeMs, "desc": o.Desc}
		if o.Bounded != "" {
			rec["bounded"] = o.Bounded
			if o.Kind == "fact" {
				boundedNames = append(boundedNames, o.Name)
				if o.Status == "discharged" {
					nBoundedPass++
				}
			}
		}
		oblJSON = append(oblJSON, rec)
		if o.Cover {
			covers++
			if o.Status == "covered" {
				nCover++
				continue
			}
			// vacuous or undecided cover
			if o.Status == "vacuous" {
				rp := writeReplay(replayDir, prop, o, nil, "vacuous: the assumptions of this function are contradictory")
				lines = append(lines, fmt.Sprintf("VIOLATION property=%s replay=%s no-failing-input-found", prop, rp))
				nViol++
			} else {
				nCoverUnknown++
			}
			continue
		}
		byKind[o.Kind]++
		switch o.Status {
		case "discharged":
			nDis++
			bySolver[o.Solver]++
		case "failed":
			if k, ok := knownBy[o.Name]; ok {
				nKnown++
				lines = append(lines, fmt.Sprintf("KNOWN-FINDING: property=%s %s %s", prop, o.Name, k.What))
				continue
			}
			rp, confirmed := replayObligation(w, replayDir, prop, o)
			suffix := ""
			if !confirmed {
				suffix = " no-failing-input-found"
			}
			lines = append(lines, fmt.Sprintf("VIOLATION property=%s replay=%s%s", prop, rp, suffix))
			fmt.Printf("FAILED %s (%s) at %s: %s\n", o.Name, o.Solver, o.Pos, o.Desc)
			nViol++
		default: // unknown / unsupported
			if k, ok := knownBy[o.Name]; ok {
				nKnown++
				lines = append(lines, fmt.Sprintf("KNOWN-FINDING: property=%s %s %s", prop, o.Name, k.What))
				continue
			}
			// an undecided memory-safety or postcondition obligation may still have a counterexample that the
			// real code confirms (the candidate comes from the query with bounded quantifier instances)
			if o.Status == "unknown" && o.Text != "" && (strings.HasPrefix(o.Kind, "safe.") || o.Kind == "ensures") {
				if rp, confirmed := replayObligation(w, replayDir, prop, o); confirmed {
					lines = append(lines, fmt.Sprintf("VIOLATION property=%s replay=%s", prop, rp))
					fmt.Printf("FAILED %s (counterexample confirmed on the real code) at %s: %s\n", o.Name, o.Pos, o.Desc)
					nViol++
					continue
				}
			}
			if inBase[o.Name] || baseFuncClean(base, o.Func) || o.Kind == "contract" {
				rp := writeReplay(replayDir, prop, o, nil, "obligation was discharged on the baseline tree and is no longer decided: "+firstLine(o.Raw))
				lines = append(lines, fmt.Sprintf("VIOLATION property=%s replay=%s no-failing-input-found", prop, rp))
				fmt.Printf("REGRESSED %s at %s: %s [%s]\n", o.Name, o.Pos, o.Desc, firstLine(o.Raw))
				nViol++
			} else {
				nUndecided++
				fmt.Printf("UNDECIDED %s at %s: %s [%s]\n", o.Name, o.Pos, o.Desc, firstLine(o.Raw))
			}
		}
	}
	// labelled baseline obligations that vanished
	if only == "" {
		for _, n := range base.Discharged {
			if !seen[n] && (strings.Contains(n, "#ensures:") || strings.Contains(n, "#pkginv") || strings.Contains(n, "#fact:") || strings.Contains(n, "#immutable:") || strings.Contains(n, "#const:") || strings.Contains(n, "#lemma:")) {
				o := &Obligation{Name: n, Kind: "missing", Status: "unknown", Raw: "obligation present in the baseline is no longer generated (contract or function removed)"}
				if _, ok := knownBy[n]; ok {
					continue
				}
				rp := writeReplay(replayDir, prop, o, nil, o.Raw)
				lines = append(lines, fmt.Sprintf("VIOLATION property=%s replay=%s no-failing-input-found", prop, rp))
				nViol++
			}
		}
	}
	nObl := len(obls) - covers
	if nObl == 0 && only == "" {
		o := &Obligation{Name: prop + "#no-obligations", Kind: "vacuity", Status: "unknown", Raw: "no obligation was generated for this property"}
		rp := writeReplay(replayDir, prop, o, nil, o.Raw)
		lines = append(lines, fmt.Sprintf("VIOLATION property=%s replay=%s no-failing-input-found", prop, rp))
		nViol++
	}

	if updateBaseline {
		var nb Baseline
		nb.Property = prop
		nb.Functions = map[string]int{}
		for _, o := range obls {
			if o.Status == "discharged" && !o.Cover {
				nb.Discharged = append(nb.Discharged, o.Name)
				nb.Functions[o.Func]++
			}
		}
		// a function is "clean" only if all of its obligations were discharged
		for _, o := range obls {
			if !o.Cover && o.Status != "discharged" {
				delete(nb.Functions, o.Func)
			}
		}
		os.MkdirAll(filepath.Dir(basePath), 0o755)
		b, _ := json.MarshalIndent(nb, "", " ")
		os.WriteFile(basePath, b, 0o644)
	}

	// ---- evidence
	var samples []interface{}
	for _, o := range obls {
		if len(samples) >= 3 {
			break
		}
		if o.Status == "discharged" && o.Text != "" && len(o.Text) < 6000 {
			samples = append(samples, map[string]interface{}{"obligation": o.Name, "kind": o.Kind, "pos": o.Pos, "desc": o.Desc, "solver": o.Solver, "smt2": o.Text})
		}
	}
	if len(samples) == 0 {
		for _, o := range obls {
			if len(samples) >= 3 {
				break
			}
			samples = append(samples, map[string]interface{}{"obligation": o.Name, "kind": o.Kind, "pos": o.Pos, "desc": o.Desc, "status": o.Status})
		}
	}
	if len(samples) == 0 {
		samples = append(samples, "no obligations")
	}
	var asm []string
	for a := range assumptions {
		asm = append(asm, a)
	}
	asm = append(asm,
		"machine integers are bit-vectors with Go wrap-around semantics; slice/string lengths are assumed <= 2^40",
		"functions are verified as sequential atomic code: goroutine interleavings, data races and sync.Mutex are not modelled",
		"a call is replaced by the callee's contract; functions without contract are assumed to modify anything",
		"floating point values are opaque",
		"termination is proved only where a decreases clause is given")
	sort.Strings(asm)
	tb := []string{}
	for t := range trusted {
		tb = append(tb, t)
	}
	sort.Strings(tb)
	sort.Strings(fuc)
	discharged := nDis
	ev := map[string]interface{}{
		"property_id": prop, "tier": tier, "seed": seed, "level": level,
		"coverage": map[string]interface{}{
			"obligations":              nObl - nKnown,
			"discharged":               discharged,
			"checker_cmd":              strings.Join(os.Args, " "),
			"trusted_base":             tb,
			"samples":                  samples,
			"explanation":              fmt.Sprintf("%d obligations generated from the SSA of %d functions under contract in /repo's working tree; %d discharged, of which %d by proof (unsat / constant-folded / closed facts) and %d are BOUNDED evaluations of the real code over a stated finite domain (not proofs; listed under bounded_evaluations); %d known findings, %d violations, %d undecided; %d vacuity covers satisfiable", nObl, len(fuc), nDis, nDis-nBoundedPass, nBoundedPass, nKnown, nViol, nUndecided, nCover),
			"discharged_by_proof":      nDis - nBoundedPass,
			"bounded_passed":           nBoundedPass,
			"bounded_evaluations":      boundedNames,
			"evaluations":              nObl,
			"distinct_nontrivial":      nObl - byKindTrivial(obls),
			"rule":                     "one SMT query per named obligation (postcondition, call-site precondition, loop invariant init/step, variant, memory-safety check, frame check); non-trivial = not constant-folded by the generator",
			"functions_under_contract": fuc,
			"by_kind":                  byKind,
			"by_solver":                bySolver,
			"solver_time_ms":           solverMs,
			"covers_satisfiable":       nCover,
			"covers_not_shown_contradictory": nCoverUnknown,
			"known_findings":           nKnown,
			"undecided":                nUndecided,
			"obligation_list":          oblJSON,
			"exhaustive":               false,
		},
		"assumptions": asm,
		"wall_s":      time.Since(t0).Seconds(),
		"violations":  nViol,
	}
	writeEvidence(evPath, ev)
	for _, l := range lines {
		fmt.Println(l)
	}
	bnd := ""
	if len(boundedNames) > 0 {
		bnd = fmt.Sprintf(" (%d of them bounded evaluations, %d passed)", len(boundedNames), nBoundedPass)
	}
	fmt.Printf("property %s: %d obligations%s, %d discharged, %d known, %d violations, %d undecided, covers %d sat / %d inconclusive / %d total; %.1fs\n", prop, nObl, bnd, nDis, nKnown, nViol, nUndecided, nCover, nCoverUnknown, covers, time.Since(t0).Seconds())
	if nViol > 0 {
		return 1
	}
	if nUndecided == 0 && os.Getenv("GOVC_KEEP") == "" {
		os.RemoveAll(outDir) // the queries of a clean run are not needed again (GOVC_KEEP=1 keeps them for inspection)
	}
	return 0
}

func byKindTrivial(obls []*Obligation) int {
	n := 0
	for _, o := range obls {
		if !o.Cover && o.Solver == "generator(constant-folded)" {
			n++
		}
	}
	return n
}

func baseFuncClean(b Baseline, fn string) bool {
	_, ok := b.Functions[fn]
	return ok
}

func firstLine(s string) string {
	s = strings.TrimSpace(s)
	if i := strings.Index(s, "\n"); i >= 0 {
		s = s[:i]
	}
	if len(s) > 200 {
		s = s[:200]
	}
	return s
}

func writeEvidence(path string, ev map[string]interface{}) {
	b, _ := json.MarshalIndent(ev, "", " ")
	tmp := fmt.Sprintf("%s.%d.tmp", path, os.Getpid())
	if os.WriteFile(tmp, b, 0o644) == nil {
		os.Rename(tmp, path) // atomic: a reader never sees half a file when two tiers finish together
	}
}

func writeReplay(dir, prop string, o *Obligation, extra map[string]interface{}, why string) string {
	rp := filepath.Join(dir, sanitizeFile(o.Name)+".json")
	m := map[string]interface{}{
		"property": prop, "obligation": o.Name, "kind": o.Kind, "pos": o.Pos, "desc": o.Desc,
		"status": o.Status, "solver": o.Solver, "solver_output": o.Raw, "smt_file": o.SmtFile, "why": why, "model": o.Model,
	}
	for k, v := range extra {
		m[k] = v
	}
	b, _ := json.MarshalIndent(m, "", " ")
	os.WriteFile(rp, b, 0o644)
	return rp
}

// closedObligation builds the query of a `const` / `lemma` clause: a closed spec function must be true.
func closedObligation(w *World, cf *ContractFile, c *Clause) *Obligation {
	fn := w.specFn(w.PkgOfFile[cf] + "::" + c.SpecFn)
	name := filepath.Base(filepath.Dir(cf.Path)) + "#" + c.Kind
	if c.Label != "" {
		name += ":" + c.Label
	} else {
		name += fmt.Sprintf(".%d", c.Line)
	}
	o := &Obligation{Name: name, Kind: c.Kind, Func: name, Pos: fmt.Sprintf("%s:%d", strings.TrimPrefix(cf.Path, w.RepoDir+"/"), c.Line), Properties: strings.Fields(strings.ReplaceAll(c.Property, ",", " ")), Desc: c.Expr}
	if fn == nil {
		o.Status, o.Unsupported, o.Raw = "unsupported", "spec function missing", "spec function missing"
		return o
	}
	e := NewEng(w, fn, nil)
	func() {
		defer func() {
			if rec := recover(); rec != nil {
				o.Status = "unsupported"
				o.Unsupported = fmt.Sprint(rec)
				o.Raw = o.Unsupported
			}
		}()
		for pass := 0; pass < 4; pass++ {
			e.collect = pass == 0
			e.newNames = false
			e.reset()
			e.heapTerm(&State{heap: map[string]T{}}, "Alloc", sI64)
			st := e.initialState()
			e.entry = st
			v, _, _ := e.evalPure(fn, nil, nil, nil, nil, st, st, 0)
			if pass > 0 && !e.newNames {
				o.Text = e.q.Snapshot(len(e.q.asserts), tNot(v.(T)), nil)
				if decls, body, ok := skolemizeOuterForall(v.(T)); ok {
					// the negation of an outer universal quantifier is an existential: fresh constants instead of
					// bound variables make an arithmetic lemma a quantifier-free query
					neg := "(assert " + tNot(v.(T)) + ")\n(check-sat)\n"
					if strings.HasSuffix(o.Text, neg) {
						o.Text = strings.TrimSuffix(o.Text, neg) + decls + "(assert " + tNot(body) + ")\n(check-sat)\n"
					}
				}
				o.Quantified = strings.Contains(o.Text, "(forall ") || strings.Contains(o.Text, "(exists ")
				break
			}
		}
	}()
	return o
}


// skolemizeOuterForall splits a term of the exact form (forall ((x S) ...) BODY) or
// (forall ((x S) ...) (! BODY :pattern ...)) into declarations of its bound variables as constants and BODY.
func skolemizeOuterForall(t string) (decls string, body string, ok bool) {
	const pre = "(forall ("
	if !strings.HasPrefix(t, pre) || !strings.HasSuffix(t, ")") {
		return "", "", false
	}
	sexprEnd := func(s string, i int) int { // index just after the s-expression starting at s[i]
		if i >= len(s) {
			return -1
		}
		if s[i] != '(' {
			j := i
			if s[j] == '|' {
				k := strings.IndexByte(s[j+1:], '|')
				if k < 0 {
					return -1
				}
				return j + 1 + k + 1
			}
			for j < len(s) && s[j] != ' ' && s[j] != ')' {
				j++
			}
			return j
		}
		depth := 0
		for j := i; j < len(s); j++ {
			switch s[j] {
			case '|':
				k := strings.IndexByte(s[j+1:], '|')
				if k < 0 {
					return -1
				}
				j += k + 1
			case '(':
				depth++
			case ')':
				depth--
				if depth == 0 {
					return j + 1
				}
			}
		}
		return -1
	}
	bl := len(pre) - 1 // the binder list starts here
	be := sexprEnd(t, bl)
	if be < 0 || be+1 >= len(t) || t[be] != ' ' {
		return "", "", false
	}
	var sb strings.Builder
	for i := bl + 1; i < be-1; {
		if t[i] == ' ' {
			i++
			continue
		}
		j := sexprEnd(t, i)
		if j < 0 || t[i] != '(' {
			return "", "", false
		}
		sb.WriteString("(declare-const " + t[i+1:j-1] + ")\n")
		i = j
	}
	bs := be + 1
	bend := sexprEnd(t, bs)
	if bend != len(t)-1 {
		return "", "", false
	}
	body = t[bs:bend]
	if strings.HasPrefix(body, "(! ") {
		ie := sexprEnd(body, 3)
		if ie < 0 {
			return "", "", false
		}
		body = body[3:ie]
	}
	return sb.String(), body, true
}

// evalAllFacts decides every closed `fact` clause by running the real code: for every package with such
// clauses a test is injected through a build overlay (nothing is written to /repo) that calls the
// generated spec functions, and `go test -tags verif` is run on /repo's working tree.  Facts that do not
// evaluate to true are reported as failed obligations and are NOT assumed anywhere.
type factRes struct {
	status string // discharged failed unknown
	raw    string
	ms     int64
}

func evalAllFacts(w *World, outDir string, prop string, tier string) {
	w.FactResult = map[string]factRes{}
	type item struct{ pkg, fn string }
	byPkg := map[string][]string{}
	for path, cf := range w.FileOfPkg {
		for _, c := range cf.PkgInvs {
			if c.Kind == "fact" {
				if strings.HasPrefix(c.Label, "bounded_") && c.Property != "" && !containsStr(strings.Fields(strings.ReplaceAll(c.Property, ",", " ")), prop) {
					continue // an exhaustive evaluation is never assumed anywhere: only run for the properties it decides
				}
				byPkg[path] = append(byPkg[path], c.SpecFn)
			}
		}
	}
	if len(byPkg) == 0 {
		return
	}
	ovDir := filepath.Join(outDir, "overlay")
	os.RemoveAll(ovDir)
	os.MkdirAll(ovDir, 0o755)
	replace := map[string]string{}
	n := 0
	add := func(path string, content []byte) {
		n++
		f := filepath.Join(ovDir, fmt.Sprintf("f%d_%s", n, filepath.Base(path)))
		os.WriteFile(f, content, 0o644)
		replace[path] = f
	}
	for p, b := range w.GenFiles {
		add(p, b)
	}
	var pkgs []string
	for p := range byPkg {
		pkgs = append(pkgs, p)
	}
	sort.Strings(pkgs)
	var runnable []string
	for _, pp := range pkgs {
		var dir, name string
		for _, p := range w.Pkgs {
			if p.PkgPath == pp && len(p.GoFiles) > 0 {
				dir, name = filepath.Dir(p.GoFiles[0]), p.Name
			}
		}
		if dir == "" {
			for _, fn := range byPkg[pp] {
				w.FactResult[pp+"::"+fn] = factRes{"unknown", "package directory not found", 0}
			}
			continue
		}
		var b strings.Builder
		fmt.Fprintf(&b, "//go:build verif\n\npackage %s\n\nimport (\n\t\"fmt\"\n\t\"testing\"\n)\n\n", name)
		// a fact that panics is a fact that does not hold (and must not take the other facts with it)
		b.WriteString("func zzVerifFact(t *testing.T, name string, f func() bool) {\n\tspecWitness = \"\"\n\tok := false\n\tfunc() {\n\t\tdefer func() {\n\t\t\tif r := recover(); r != nil {\n\t\t\t\tspecWitness = fmt.Sprintf(\"panic: %v %s\", r, specWitness)\n\t\t\t}\n\t\t}()\n\t\tok = f()\n\t}()\n\tif ok {\n\t\tt.Logf(\"FACT-OK %s\", name)\n\t} else {\n\t\tt.Logf(\"FACT-WITNESS %s: %q\", name, specWitness)\n\t\tt.Errorf(\"FACT-FAILED %s\", name)\n\t}\n}\n\n")
		// one test function per fact: a fact whose evaluation crashes the test binary (a panic in a goroutine of
		// the real code) can then be told from the others and be evaluated again on its own
		for _, fn := range byPkg[pp] {
			fmt.Fprintf(&b, "func TestZZVerifFact_%s(t *testing.T) {\n\tzzVerifFact(t, %q, %s)\n}\n\n", fn, fn, fn)
		}
		add(filepath.Join(dir, "zz_verif_facts_test.go"), []byte(b.String()))
		runnable = append(runnable, pp)
	}
	ovJSON, _ := json.Marshal(map[string]interface{}{"Replace": replace})
	ovFile := filepath.Join(ovDir, "overlay.json")
	os.WriteFile(ovFile, ovJSON, 0o644)
	var wg sync.WaitGroup
	var mu sync.Mutex
	for _, pp := range runnable {
		wg.Add(1)
		go func(pp string) {
			defer wg.Done()
			t0 := time.Now()
			runFacts := func(rx string) string {
				cmd := exec.Command("go", "test", "-tags", "verif", "-overlay", ovFile, "-vet=off", "-count=1", "-timeout", "900s", "-run", rx, "-v", pp)
				cmd.Dir = w.RepoDir
				// bounded facts may widen their finite domain in the thorough tier (the helper reads GOVC_TIER)
				cmd.Env = append(os.Environ(), "GOFLAGS=-mod=mod", "GOPROXY=off", "GOSUMDB=off", "GOTOOLCHAIN=local", "GOVC_TIER="+tier)
				out, _ := cmd.CombinedOutput()
				return string(out)
			}
			logLine := func(fn, why string) {
				if lf, err := os.OpenFile(filepath.Join(filepath.Dir(outDir), "fact_failures.log"), os.O_APPEND|os.O_CREATE|os.O_WRONLY, 0o644); err == nil {
					fmt.Fprintf(lf, "%s %s %s::%s %s\n", time.Now().Format(time.RFC3339), prop, pp, fn, why)
					lf.Close()
				}
			}
			classify := func(out, fn string) (string, string) {
				switch {
				case strings.Contains(out, "FACT-OK "+fn+"\n"):
					return "discharged", ""
				case strings.Contains(out, "FACT-FAILED "+fn+"\n"):
					why := "the expression evaluates to false on the real code"
					if m := regexp.MustCompile(`FACT-WITNESS `+regexp.QuoteMeta(fn)+`: (".*")`).FindStringSubmatch(out); m != nil {
						if wtn, err := strconv.Unquote(m[1]); err == nil && wtn != "" {
							why += "; failing input: " + wtn
						}
					}
					return "failed", why
				}
				return "unknown", "go test did not complete the fact: " + lastLines(out, 12)
			}
			out := runFacts("^TestZZVerifFact_")
			ms := time.Since(t0).Milliseconds() / int64(len(byPkg[pp]))
			res := map[string]factRes{}
			for _, fn := range byPkg[pp] {
				st, why := classify(out, fn)
				if st == "unknown" && strings.Contains(out, "FACT-") {
					// the binary ran but ended before this fact reported (a crash outside the fact's own goroutine, or
					// the time limit): evaluate the fact on its own; it holds if an evaluation completes with true,
					// fails if one completes with false or if every attempt crashes
					logLine(fn, "first evaluation did not complete: "+lastLines(out, 12))
					crash := why
					for attempt := 0; attempt < 3 && st == "unknown"; attempt++ {
						o2 := runFacts("^TestZZVerifFact_" + fn + "$")
						st, why = classify(o2, fn)
						if st == "unknown" {
							crash = why
							logLine(fn, "repeated evaluation did not complete: "+lastLines(o2, 12))
						}
					}
					if st == "unknown" {
						st, why = "failed", "every evaluation of the fact ends with the real code crashing or hanging: "+crash
					} else if st == "discharged" {
						why = "an earlier evaluation in the same run did not complete (see out/fact_failures.log); this one did"
					}
				}
				if st == "failed" {
					logLine(fn, why)
				}
				res[fn] = factRes{st, why, ms}
			}
			mu.Lock()
			for fn, r := range res {
				w.FactResult[pp+"::"+fn] = r
			}
			mu.Unlock()
		}(pp)
	}
	wg.Wait()
	os.RemoveAll(ovDir)
}

func lastLines(s string, n int) string {
	ls := strings.Split(strings.TrimSpace(s), "\n")
	if len(ls) > n {
		ls = ls[len(ls)-n:]
	}
	return strings.Join(ls, " | ")
}
