package main

import (
	"fmt"
	"go/constant"
	"go/token"
	"go/types"

	"golang.org/x/tools/go/ssa"
)

func constantString(c *ssa.Const) string { return constant.StringVal(c.Value) }

func constInt64(c *ssa.Const) (int64, bool) {
	if c.Value.Kind() != constant.Int {
		return 0, false
	}
	return constant.Int64Val(c.Value)
}

func convInt(from, to types.Type, v T) T {
	fw, fs := intInfo(from)
	tw, _ := intInfo(to)
	if fw == 0 || tw == 0 {
		return v
	}
	switch {
	case fw == tw:
		return v
	case fw > tw:
		return fmt.Sprintf("((_ extract %d 0) %s)", tw-1, v)
	case fs:
		return fmt.Sprintf("((_ sign_extend %d) %s)", tw-fw, v)
	default:
		return fmt.Sprintf("((_ zero_extend %d) %s)", tw-fw, v)
	}
}

func toI64(t types.Type, v T) T { return convInt(t, types.Typ[types.Int64], v) }

func (e *Eng) taintOf(fr *Frame, vs ...ssa.Value) bool {
	if !fr.pure {
		return false
	}
	for _, v := range vs {
		if v != nil && fr.taint[v] {
			return true
		}
	}
	return false
}

func (e *Eng) heapFor(fr *Frame, st *State, tainted bool) *State {
	if fr.pure && tainted && fr.oldSt != nil {
		return fr.oldSt
	}
	return st
}

// step executes one non-control instruction.
func (e *Eng) step(fr *Frame, st *State, instr ssa.Instruction) {
	switch in := instr.(type) {
	case *ssa.Alloc:
		fr.vals[in] = e.doAlloc(fr, st, in)
	case *ssa.BinOp:
		fr.vals[in] = e.binop(fr, st, in)
		e.setTaint(fr, in, in.X, in.Y)
	case *ssa.UnOp:
		fr.vals[in] = e.unop(fr, st, in)
	case *ssa.Call:
		e.doCall(fr, st, in, &in.Call, "call")
	case *ssa.Go:
		e.doCall(fr, st, in, &in.Call, "go")
	case *ssa.Defer:
		e.doDefer(fr, st, in)
	case *ssa.RunDefers:
		e.runDefers(fr, st, in)
	case *ssa.ChangeType:
		fr.vals[in] = e.changeType(fr, in)
		e.setTaint(fr, in, in.X)
	case *ssa.ChangeInterface:
		v := e.val(fr, in.X)
		if iv, ok := v.(*IfaceV); ok && iv.StaticI == nil {
			if it, ok := under(in.X.Type()).(*types.Interface); ok && it.NumMethods() > 0 {
				cp := *iv
				cp.StaticI = in.X.Type()
				v = &cp
			}
		}
		fr.vals[in] = v
		e.setTaint(fr, in, in.X)
	case *ssa.Convert:
		fr.vals[in] = e.convert(fr, st, in)
		e.setTaint(fr, in, in.X)
	case *ssa.MakeInterface:
		fr.vals[in] = e.makeInterface(fr, st, in)
		e.setTaint(fr, in, in.X)
	case *ssa.TypeAssert:
		fr.vals[in] = e.typeAssert(fr, st, in)
		e.setTaint(fr, in, in.X)
	case *ssa.Extract:
		fr.vals[in] = e.val(fr, in.Tuple).(*TupleV).Elems[in.Index]
		e.setTaint(fr, in, in.Tuple)
	case *ssa.Field:
		fr.vals[in] = e.val(fr, in.X).(*StructV).Fields[in.Field]
		e.setTaint(fr, in, in.X)
	case *ssa.FieldAddr:
		p := e.val(fr, in.X).(*PtrV)
		if !p.NonNil {
			e.safe(fr, st, "nil", tNot(tEq(p.Ref, null)), in, "pointer is not nil when a field is accessed")
		}
		st0 := in.X.Type().Underlying().(*types.Pointer).Elem()
		if p.Kind != pStruct && p.Kind != pLocal && p.Kind != pGlobal {
			panic(unsupportedErr{fmt.Sprintf("FieldAddr on pointer kind %d in %s", p.Kind, fr.fn)})
		}
		fr.vals[in] = e.fieldPtr(p, st0, in.Field)
		e.setTaint(fr, in, in.X)
	case *ssa.IndexAddr:
		fr.vals[in] = e.indexAddr(fr, st, in)
		e.setTaint(fr, in, in.X)
	case *ssa.Index:
		fr.vals[in] = e.index(fr, st, in)
		e.setTaint(fr, in, in.X, in.Index)
	case *ssa.Lookup:
		fr.vals[in] = e.lookup(fr, st, in)
		e.setTaint(fr, in, in.X, in.Index)
	case *ssa.MapUpdate:
		e.mapUpdate(fr, st, in)
	case *ssa.MakeMap:
		r := e.newRef(fr, st, "map")
		mt := under(in.Type()).(*types.Map)
		e.mapInit(st, mt, r)
		fr.vals[in] = &MapV{r}
	case *ssa.MakeChan:
		ch := e.newRef(fr, st, "chan")
		fr.vals[in] = ch
		capT := toI64(in.Size.Type(), e.val(fr, in.Size).(T))
		e.hstore(st, "G|chancap", []T{ch}, types.Typ[types.Int], capT)
		e.hstore(st, "G|chansends", []T{ch}, types.Typ[types.Int], i64(0))
		e.hstore(st, "G|chanrecv", []T{ch}, types.Typ[types.Int], i64(0))
		if !fr.pure && fr.fn == e.fn {
			e.localChans = append(e.localChans, localChan{ch, in})
		}
	case *ssa.MakeSlice:
		fr.vals[in] = e.makeSlice(fr, st, in)
	case *ssa.MakeClosure:
		fv := &FuncV{Fn: in.Fn.(*ssa.Function)}
		for _, b := range in.Bindings {
			fv.Bind = append(fv.Bind, e.val(fr, b))
		}
		e.loopCaptureCheck(fr, st, in)
		if fr.pure {
			fv.Ref = null
		} else {
			fv.Ref = e.newRef(fr, st, "closure")
		}
		fr.vals[in] = fv
		if fr.pure {
			for _, b := range in.Bindings {
				if fr.taint[b] {
					fr.taint[in] = true
				}
			}
		}
	case *ssa.Slice:
		fr.vals[in] = e.slice(fr, st, in)
		e.setTaint(fr, in, in.X)
	case *ssa.Store:
		p := e.val(fr, in.Addr).(*PtrV)
		v := e.val(fr, in.Val)
		e.checkFrameStore(fr, st, p, in)
		if pv, ok := v.(*PtrV); ok && (pv.Kind == pField || pv.Kind == pElem || pv.Kind == pGlobal) && p.Kind != pLocal && !fr.pure {
			e.unsound = append(e.unsound, "interior pointer stored to memory at "+e.posOf(in))
		}
		e.storePtr(fr, st, p, in.Val.Type(), v)
		if fr.pure && p.Kind == pLocal {
			p.Local.tainted = fr.taint[in.Val]
		}
	case *ssa.Next:
		fr.vals[in] = e.next(fr, st, in)
	case *ssa.Range:
		fr.vals[in] = e.val(fr, in.X)
	case *ssa.Select:
		tv := &TupleV{}
		tup := in.Type().(*types.Tuple)
		for i := 0; i < tup.Len(); i++ {
			tv.Elems = append(tv.Elems, e.freshVal(tup.At(i).Type(), "select"))
		}
		// index is within the number of states (or -1 for default when non-blocking)
		idx := tv.Elems[0].(T)
		lo := i64(0)
		if !in.Blocking {
			lo = bvLit(64, ^uint64(0))
		}
		e.assume(st, tAnd(app("bvsle", lo, idx), app("bvslt", idx, i64(int64(len(in.States))))))
		for k, sst := range in.States {
			if ch, ok := e.val(fr, sst.Chan).(T); ok {
				name := "G|chanrecv"
				if sst.Dir == types.SendOnly {
					name = "G|chansends"
				}
				e.chanCount(st, name, ch, tEq(idx, i64(int64(k))))
			}
		}
		fr.vals[in] = tv
		e.note("select: a ready case is chosen nondeterministically; channel contents are not modelled")
	case *ssa.Send:
		e.note("channel send: contents not modelled, only counted")
		if ch, ok := e.val(fr, in.Chan).(T); ok {
			e.chanCount(st, "G|chansends", ch, "true")
		}
	case *ssa.SliceToArrayPointer, *ssa.MultiConvert:
		fr.vals[in.(ssa.Value)] = e.freshVal(in.(ssa.Value).Type(), "unsupported")
		e.note("unsupported conversion: havoc")
	case *ssa.DebugRef:
	default:
		panic(unsupportedErr{fmt.Sprintf("unsupported instruction %T in %s", instr, fr.fn)})
	}
}

func (e *Eng) setTaint(fr *Frame, v ssa.Value, ops ...ssa.Value) {
	if !fr.pure {
		return
	}
	// "old" is a property of references (through which memory is read); scalars computed in the old
	// state are plain values
	switch under(v.Type()).(type) {
	case *types.Basic:
		return
	}
	for _, o := range ops {
		if o != nil && fr.taint[o] {
			fr.taint[v] = true
			return
		}
	}
}

func (e *Eng) doAlloc(fr *Frame, st *State, in *ssa.Alloc) Val {
	et := in.Type().Underlying().(*types.Pointer).Elem()
	if fr.pure {
		return &PtrV{Kind: pLocal, Local: &LocalCell{val: zeroVal(et)}, Elem: et, NonNil: true, Ref: null}
	}
	r := e.newRef(fr, st, "alloc")
	switch under(et).(type) {
	case *types.Struct:
		p := &PtrV{Kind: pStruct, Ref: r, Elem: et, NonNil: true}
		e.assume(st, tEq(e.rtypeOf(r), e.structTag(et)))
		e.storePtr(fr, st, p, et, zeroVal(et))
		e.noteLocal(fr, in, p)
		return p
	case *types.Array:
		p := &PtrV{Kind: pArr, Ref: r, Elem: et, NonNil: true}
		e.storePtr(fr, st, p, et, zeroVal(et))
		return p
	}
	p := &PtrV{Kind: pCell, Ref: r, Fam: "C|" + elemKey(et), Elem: et, NonNil: true}
	e.storePtr(fr, st, p, et, zeroVal(et))
	e.noteLocal(fr, in, p)
	return p
}

// A local variable of the function under verification whose address never leaves the function except
// into closures that only read it cannot be written by any call: its storage survives call havocs.
type privLocal struct {
	alloc *ssa.Alloc
	p     *PtrV
}

func (e *Eng) noteLocal(fr *Frame, in *ssa.Alloc, p *PtrV) {
	if fr.fn != e.fn || !e.privateAlloc(in) {
		return
	}
	for _, pl := range e.privLocals {
		if pl.alloc != nil && pl.alloc == in {
			return
		}
	}
	e.privLocals = append(e.privLocals, privLocal{in, p})
}

func (e *Eng) privateAlloc(a *ssa.Alloc) bool {
	if v, ok := e.privMemo[a]; ok {
		return v
	}
	if e.privMemo == nil {
		e.privMemo = map[*ssa.Alloc]bool{}
	}
	ok := addrUsesPrivate(a, 0)
	e.privMemo[a] = ok
	return ok
}

// addrUsesPrivate: every use of the address v is a load, a store INTO it, a field/element address whose
// uses are again private, or a capture by a closure that itself only loads through the captured pointer.
func addrUsesPrivate(v ssa.Value, depth int) bool {
	if depth > 4 || v.Referrers() == nil {
		return false
	}
	for _, r := range *v.Referrers() {
		switch x := r.(type) {
		case *ssa.DebugRef:
		case *ssa.UnOp:
			if x.Op != token.MUL {
				return false
			}
		case *ssa.Store:
			if x.Val == v {
				return false
			}
		case *ssa.FieldAddr:
			if !addrUsesPrivate(x, depth+1) {
				return false
			}
		case *ssa.MakeClosure:
			fn := x.Fn.(*ssa.Function)
			for i, b := range x.Bindings {
				if b == v {
					if i >= len(fn.FreeVars) || !readOnlyCapture(fn.FreeVars[i], depth+1) {
						return false
					}
				}
			}
		default:
			return false
		}
	}
	return true
}

func readOnlyCapture(fv *ssa.FreeVar, depth int) bool {
	if depth > 4 || fv.Referrers() == nil {
		return false
	}
	for _, r := range *fv.Referrers() {
		switch x := r.(type) {
		case *ssa.DebugRef:
		case *ssa.UnOp:
			if x.Op != token.MUL {
				return false
			}
		case *ssa.MakeClosure:
			fn := x.Fn.(*ssa.Function)
			for i, b := range x.Bindings {
				if b == ssa.Value(fv) {
					if i >= len(fn.FreeVars) || !readOnlyCapture(fn.FreeVars[i], depth+1) {
						return false
					}
				}
			}
		default:
			return false
		}
	}
	return true
}

// savePrivLocals / restorePrivLocals bracket a havoc of memory.
func (e *Eng) savePrivLocals(st *State) []Val {
	var vs []Val
	for _, pl := range e.privLocals {
		vs = append(vs, e.loadPtr(e.fr, st, pl.p, pl.p.Elem))
	}
	return vs
}

func (e *Eng) restorePrivLocals(st *State, vs []Val) {
	for i, pl := range e.privLocals {
		if i < len(vs) {
			e.storePtr(e.fr, st, pl.p, pl.p.Elem, vs[i])
		}
	}
}

func (e *Eng) changeType(fr *Frame, in *ssa.ChangeType) Val {
	v := e.val(fr, in.X)
	// pointer representation may depend on the pointee type name
	if p, ok := v.(*PtrV); ok {
		if pt, ok := under(in.Type()).(*types.Pointer); ok && p.Kind == pCell {
			np := *p
			np.Elem = pt.Elem()
			return &np
		}
	}
	return v
}

func (e *Eng) binop(fr *Frame, st *State, in *ssa.BinOp) Val {
	x, y := e.val(fr, in.X), e.val(fr, in.Y)
	xt := in.X.Type()
	switch in.Op {
	case token.EQL, token.NEQ:
		eq := e.equal(fr, st, xt, in.Y.Type(), x, y)
		if in.Op == token.NEQ {
			return tNot(eq)
		}
		return eq
	}
	if isString(xt) {
		switch in.Op {
		case token.ADD:
			return e.strConcat(fr, st, x.(*StrV), y.(*StrV))
		default:
			e.note("string ordering comparison: abstracted")
			return e.fresh("strcmp", sBool)
		}
	}
	if isFloat(xt) {
		e.note("floating point arithmetic is opaque")
		if b, ok := under(in.Type()).(*types.Basic); ok && b.Info()&types.IsBoolean != 0 {
			return e.fresh("fcmp", sBool)
		}
		return e.fresh("fop", sI64)
	}
	if isBool(xt) {
		switch in.Op {
		case token.LAND, token.AND:
			return tAnd(x.(T), y.(T))
		case token.LOR, token.OR:
			return tOr(x.(T), y.(T))
		}
	}
	w, signed := intInfo(xt)
	if w == 0 {
		panic(unsupportedErr{fmt.Sprintf("binop %s on %s", in.Op, xt)})
	}
	a, b := x.(T), y.(T)
	sel := func(s, u string) string {
		if signed {
			return s
		}
		return u
	}
	switch in.Op {
	case token.ADD:
		return app("bvadd", a, b)
	case token.SUB:
		return app("bvsub", a, b)
	case token.MUL:
		return app("bvmul", a, b)
	case token.QUO:
		e.safe(fr, st, "div", tNot(tEq(b, bvLit(w, 0))), in, "divisor is not zero")
		return app(sel("bvsdiv", "bvudiv"), a, b)
	case token.REM:
		e.safe(fr, st, "div", tNot(tEq(b, bvLit(w, 0))), in, "divisor is not zero")
		return app(sel("bvsrem", "bvurem"), a, b)
	case token.AND:
		return app("bvand", a, b)
	case token.OR:
		return app("bvor", a, b)
	case token.XOR:
		return app("bvxor", a, b)
	case token.AND_NOT:
		return app("bvand", a, app("bvnot", b))
	case token.SHL, token.SHR:
		yw, ys := intInfo(in.Y.Type())
		if ys {
			e.safe(fr, st, "shift", app("bvsle", bvLit(yw, 0), b), in, "shift count is not negative")
		}
		// bring the count to the width of x; counts >= w give 0 (or sign fill)
		var cnt T
		big := T("false")
		switch {
		case yw == w:
			cnt = b
		case yw < w:
			cnt = fmt.Sprintf("((_ zero_extend %d) %s)", w-yw, b)
		default:
			cnt = fmt.Sprintf("((_ extract %d 0) %s)", w-1, b)
			big = app("bvuge", b, bvLit(yw, uint64(w)))
		}
		if in.Op == token.SHL {
			return tIte(big, bvLit(w, 0), app("bvshl", a, cnt))
		}
		if signed {
			return tIte(big, app("bvashr", a, bvLit(w, uint64(w-1))), app("bvashr", a, cnt))
		}
		return tIte(big, bvLit(w, 0), app("bvlshr", a, cnt))
	case token.LSS:
		return app(sel("bvslt", "bvult"), a, b)
	case token.LEQ:
		return app(sel("bvsle", "bvule"), a, b)
	case token.GTR:
		return app(sel("bvsgt", "bvugt"), a, b)
	case token.GEQ:
		return app(sel("bvsge", "bvuge"), a, b)
	}
	panic(unsupportedErr{fmt.Sprintf("binop %s", in.Op)})
}

// equal compares two values of (possibly different but comparable) static types.
func (e *Eng) equal(fr *Frame, st *State, xt, yt types.Type, x, y Val) T {
	switch a := x.(type) {
	case T:
		return tEq(a, y.(T))
	case *StrV:
		return e.strEq(a, y.(*StrV))
	case *PtrV:
		b := y.(*PtrV)
		if a.Kind == pLocal || b.Kind == pLocal {
			if a.Local == b.Local {
				return "true"
			}
			return "false"
		}
		if a.Kind == pGlobal || b.Kind == pGlobal {
			if a.Kind == b.Kind {
				if a.Fam == b.Fam {
					return "true"
				}
				return "false"
			}
			return "false"
		}
		c := tEq(a.Ref, b.Ref)
		if a.Kind == pElem && b.Kind == pElem {
			c = tAnd(c, tEq(a.Idx, b.Idx))
		}
		return c
	case *SliceV:
		b := y.(*SliceV)
		// only comparison with nil is legal
		if b.B == null {
			return tEq(a.B, null)
		}
		return tEq(b.B, null)
	case *MapV:
		return tEq(a.Ref, y.(*MapV).Ref)
	case *FuncV:
		return tEq(a.Ref, y.(*FuncV).Ref)
	case *IfaceV:
		b, ok := y.(*IfaceV)
		if !ok {
			panic(unsupportedErr{"interface compared with non-interface"})
		}
		if b.Ty == bvLit(32, 0) {
			return tEq(a.Ty, b.Ty)
		}
		if a.Ty == bvLit(32, 0) {
			return tEq(a.Ty, b.Ty)
		}
		return tAnd(tEq(a.Ty, b.Ty), tEq(a.V, b.V))
	case *StructV:
		s := under(xt).(*types.Struct)
		b := y.(*StructV)
		var cs []T
		for i := range a.Fields {
			cs = append(cs, e.equal(fr, st, s.Field(i).Type(), s.Field(i).Type(), a.Fields[i], b.Fields[i]))
		}
		return tAnd(cs...)
	case *ArrV:
		return tEq(a.A, y.(*ArrV).A)
	}
	panic(unsupportedErr{fmt.Sprintf("equality on %T", x)})
}

func (e *Eng) strByte(s *StrV, i T) T {
	return tSel("StrData", s.B, app("bvadd", s.O, i))
}

func (e *Eng) strEq(a, b *StrV) T {
	if a.Lit != nil && b.Lit != nil {
		if *a.Lit == *b.Lit {
			return "true"
		}
		return "false"
	}
	if b.Lit != nil {
		a, b = b, a
	}
	if a.Lit != nil && len(*a.Lit) <= 64 {
		cs := []T{tEq(b.L, i64(int64(len(*a.Lit))))}
		for i := 0; i < len(*a.Lit); i++ {
			cs = append(cs, tEq(e.strByte(b, i64(int64(i))), bvLit(8, uint64((*a.Lit)[i]))))
		}
		return tAnd(cs...)
	}
	// two symbolic strings: identical headers are equal; otherwise an uninterpreted predicate
	// that is only known to imply equal lengths (sound: both outcomes are explored).
	f := e.q.DeclareFun("streq", []string{sRef, sI64, sI64, sRef, sI64, sI64}, sBool)
	same := tAnd(tEq(a.B, b.B), tEq(a.O, b.O), tEq(a.L, b.L))
	// symmetric by construction: both argument orders are required
	both := tAnd(app(f, a.B, a.O, a.L, b.B, b.O, b.L), app(f, b.B, b.O, b.L, a.B, a.O, a.L))
	return tOr(same, tAnd(tEq(a.L, b.L), tOr(tEq(a.L, i64(0)), both)))
}

func (e *Eng) strConcat(fr *Frame, st *State, a, b *StrV) Val {
	if a.Lit != nil && b.Lit != nil {
		return e.strLit(*a.Lit + *b.Lit)
	}
	// the result is a function of the operands (so that the same concatenation written in a contract
	// and in the code denotes the same string)
	f := e.q.DeclareFun("strcat", []string{sRef, sI64, sI64, sRef, sI64, sI64}, sRef)
	r := app(f, a.B, a.O, a.L, b.B, b.O, b.L)
	res := &StrV{B: r, O: i64(0), L: app("bvadd", a.L, b.L)}
	if !fr.pure {
		// content for constant-length prefixes (keeps queries quantifier-free)
		if a.Lit != nil && len(*a.Lit) <= 64 {
			for i := 0; i < len(*a.Lit); i++ {
				e.assume(st, tEq(e.strByte(res, i64(int64(i))), bvLit(8, uint64((*a.Lit)[i]))))
			}
		}
	}
	return res
}

func (e *Eng) unop(fr *Frame, st *State, in *ssa.UnOp) Val {
	x := e.val(fr, in.X)
	switch in.Op {
	case token.NOT:
		e.setTaint(fr, in, in.X)
		return tNot(x.(T))
	case token.SUB:
		e.setTaint(fr, in, in.X)
		if isFloat(in.X.Type()) {
			return e.fresh("fneg", sI64)
		}
		return app("bvneg", x.(T))
	case token.XOR:
		e.setTaint(fr, in, in.X)
		return app("bvnot", x.(T))
	case token.MUL:
		p := x.(*PtrV)
		if !p.NonNil && p.Kind != pLocal && p.Kind != pGlobal {
			e.safe(fr, st, "nil", tNot(tEq(p.Ref, null)), in, "pointer is not nil when dereferenced")
		}
		tainted := fr.pure && (fr.taint[in.X] || (p.Kind == pLocal && p.Local.tainted))
		hs := st
		if tainted && p.Kind != pLocal && p.Kind != pCell {
			hs = e.heapFor(fr, st, true)
		}
		v := e.loadPtr(fr, hs, p, in.Type())
		if fr.pure && tainted {
			fr.taint[in] = true
		}
		if !fr.pure {
			e.assume(st, e.wf(in.Type(), v))
			e.assumeValAllocated(fr, st, in.Type(), v)
		} else if fr.side != nil {
			if w := e.wf(in.Type(), v); w != "true" {
				// type invariant of a value read by a contract clause (outside binders): a fact on the
				// paths that perform the read
				*fr.side = append(*fr.side, tImp(st.reach, w))
			}
			// every reference stored in memory denotes an allocated object (heap invariant)
			for _, r := range refsOf(v) {
				if r != null {
					*fr.side = append(*fr.side, tImp(st.reach, tOr(tEq(r, null), e.allocatedIn(hs, r))))
				}
			}
		}
		return v
	case token.ARROW:
		e.note("channel receive: value not modelled, only counted")
		if ch, ok := x.(T); ok && !fr.pure {
			e.chanCount(st, "G|chanrecv", ch, "true")
		}
		if in.CommaOk {
			return &TupleV{[]Val{e.freshVal(in.X.Type().Underlying().(*types.Chan).Elem(), "recv"), e.fresh("recvok", sBool)}}
		}
		return e.freshVal(in.Type(), "recv")
	}
	panic(unsupportedErr{fmt.Sprintf("unop %s", in.Op)})
}

func (e *Eng) convert(fr *Frame, st *State, in *ssa.Convert) Val {
	x := e.val(fr, in.X)
	ft, tt := in.X.Type(), in.Type()
	fw, _ := intInfo(ft)
	tw, _ := intInfo(tt)
	switch {
	case fw > 0 && tw > 0:
		return convInt(ft, tt, x.(T))
	case isString(tt) && fw > 0:
		// string(rune): 1..4 bytes
		r := e.fresh("runestr", sRef)
		l := e.fresh("runestrlen", sI64)
		if !fr.pure {
			e.assume(st, tAnd(tNot(tEq(r, null)), app("bvsle", i64(1), l), app("bvsle", l, i64(4))))
		}
		return &StrV{B: r, O: i64(0), L: l}
	case isString(tt):
		// string([]byte) / string([]rune)
		if sl, ok := x.(*SliceV); ok {
			r := e.fresh("bytes2str", sRef)
			res := &StrV{B: r, O: i64(0), L: sl.L}
			if !fr.pure {
				e.assume(st, tNot(tEq(r, null)))
				if et := under(ft).(*types.Slice).Elem(); elemKey(et) == "bv8" {
					h := e.heapTerm(st, "E|bv8", heapSortFor(idxSorts(2), sI8))
					e.assumeForallRange(st, sl.L, func(k T) T {
						return tEq(tSel("StrData", r, k), tSel(h, sl.B, app("bvadd", sl.O, k)))
					}, func(k T) T { return tSel("StrData", r, k) })
				}
			}
			return res
		}
		return x
	case isString(ft):
		if _, ok := under(tt).(*types.Slice); ok {
			s := x.(*StrV)
			et := under(tt).(*types.Slice).Elem()
			if elemKey(et) != "bv8" {
				e.note("[]rune(string): contents not modelled")
				r := e.newRef(fr, st, "runes")
				l := e.fresh("runeslen", sI64)
				e.assume(st, tAnd(app("bvsle", i64(0), l), app("bvsle", l, s.L)))
				return &SliceV{r, i64(0), l, l}
			}
			r := e.newRef(fr, st, "str2bytes")
			if !fr.pure {
				name := "E|bv8"
				h := e.heapTerm(st, name, heapSortFor(idxSorts(2), sI8))
				if s.Lit != nil && len(*s.Lit) <= 400 {
					row := zeroTerm(arrSort(sI64, sI8))
					for i := 0; i < len(*s.Lit); i++ {
						row = app("store", row, i64(int64(i)), bvLit(8, uint64((*s.Lit)[i])))
					}
					st.heap[name] = app("store", h, r, row)
				} else {
					row := e.fresh("s2b_row", arrSort(sI64, sI8))
					e.assumeForallRange(st, s.L, func(k T) T {
						return tEq(app("select", row, k), e.strByte(s, k))
					}, func(k T) T { return app("select", row, k) })
					st.heap[name] = app("store", h, r, row)
				}
				e.modified[name] = true
			}
			return &SliceV{r, i64(0), s.L, s.L}
		}
		return x
	case isFloat(ft) || isFloat(tt):
		e.note("float conversion is opaque")
		return e.freshVal(tt, "fconv")
	}
	// pointer <-> unsafe.Pointer etc.
	if p, ok := x.(*PtrV); ok {
		if pt, ok := under(tt).(*types.Pointer); ok {
			return ptrFromRef(pt, p.Ref)
		}
	}
	e.note(fmt.Sprintf("conversion %s -> %s: havoc", ft, tt))
	return e.freshVal(tt, "conv")
}

// assumeForallRange assumes forall k in [0, n): body(k).  For constant small n the instances are
// expanded; otherwise a quantified hypothesis with a trigger is used.
func (e *Eng) assumeForallRange(st *State, n T, body func(k T) T, trig func(k T) T) {
	if e.collect {
		return
	}
	if v, ok := litValue(n); ok && v <= 32 {
		for i := uint64(0); i < v; i++ {
			e.assume(st, body(i64(int64(i))))
		}
		return
	}
	e.nfresh++
	k := fmt.Sprintf("k!%d", e.nfresh)
	e.quantified = true
	e.assume(st, fmt.Sprintf("(forall ((%s %s)) (! (=> (and (bvsle %s %s) (bvslt %s %s)) %s) :pattern (%s)))", k, sI64, i64(0), k, k, n, body(k), trig(k)))
}

func litValue(t T) (uint64, bool) {
	var v uint64
	var w int
	if n, err := fmt.Sscanf(t, "(_ bv%d %d)", &v, &w); err == nil && n == 2 {
		return v, true
	}
	return 0, false
}

func (e *Eng) typeTag(t types.Type) T {
	k := types.TypeString(t, nil)
	n, ok := e.tags[k]
	if !ok {
		n = len(e.tags) + 1
		e.tags[k] = n
		e.tagTypes[k] = t
		e.implFacts()
	}
	return bvLit(32, uint64(n))
}

func isRefLike(t types.Type) bool {
	switch under(t).(type) {
	case *types.Pointer, *types.Map, *types.Chan, *types.Signature:
		return true
	}
	return false
}

func refOf(v Val) T {
	switch x := v.(type) {
	case *PtrV:
		return x.Ref
	case *MapV:
		return x.Ref
	case *FuncV:
		return x.Ref
	case T:
		return x
	}
	return null
}

func (e *Eng) makeInterface(fr *Frame, st *State, in *ssa.MakeInterface) Val {
	x := e.val(fr, in.X)
	xt := in.X.Type()
	iv := &IfaceV{Ty: e.typeTag(xt), Boxed: x, BoxedT: xt}
	if isRefLike(xt) {
		iv.V = refOf(x)
		if p, ok := x.(*PtrV); ok && (p.Kind == pLocal || p.Kind == pGlobal) {
			iv.V = null
		}
		return iv
	}
	if fr.pure {
		iv.V = null
		return iv
	}
	r := e.newRef(fr, st, "box")
	e.hstore(st, "Box|"+typeName(xt), []T{r}, xt, x)
	iv.V = r
	return iv
}

func (e *Eng) typeAssert(fr *Frame, st *State, in *ssa.TypeAssert) Val {
	x := e.val(fr, in.X).(*IfaceV)
	at := in.AssertedType
	var ok T
	var res Val
	if _, isIface := under(at).(*types.Interface); isIface {
		res = x
		if x.Boxed != nil && types.Implements(x.BoxedT, under(at).(*types.Interface)) {
			ok = "true"
		} else {
			// "dynamic type implements I" is a function of the type tag only
			f := e.implFun(at)
			ok = tAnd(tNot(tEq(x.Ty, bvLit(32, 0))), app(f, x.Ty))
			if si, isI := under(in.X.Type()).(*types.Interface); isI && si.NumMethods() > 0 && types.Implements(si, under(at).(*types.Interface)) {
				ok = tNot(tEq(x.Ty, bvLit(32, 0)))
			}
			if under(at).(*types.Interface).NumMethods() == 0 {
				ok = tNot(tEq(x.Ty, bvLit(32, 0)))
			}
		}
	} else {
		ok = tEq(x.Ty, e.typeTag(at))
		if x.Boxed != nil && types.Identical(x.BoxedT, at) {
			res = x.Boxed
		} else if isRefLike(at) {
			v, _ := unflat(at, []T{x.V})
			res = v
		} else {
			res = e.hload(st, "Box|"+typeName(at), []T{x.V}, at)
		}
	}
	if p, isPtr := res.(*PtrV); isPtr && !fr.pure && e.w.nonNilDynamic(in.X.Type()) {
		e.assume(st, tImp(ok, tNot(tEq(p.Ref, null))))
		e.note("trusted data invariant: values of " + typeName(in.X.Type()) + " never hold typed-nil pointers")
	}
	if in.CommaOk {
		if _, isIface := under(at).(*types.Interface); !isIface {
			res = iteVal(at, ok, res, zeroVal(at))
		}
		return &TupleV{[]Val{res, ok}}
	}
	e.safe(fr, st, "typeassert", ok, in, "type assertion succeeds")
	return res
}

func (e *Eng) indexAddr(fr *Frame, st *State, in *ssa.IndexAddr) Val {
	x := e.val(fr, in.X)
	i := toI64(in.Index.Type(), e.val(fr, in.Index).(T))
	switch xv := x.(type) {
	case *SliceV:
		e.safe(fr, st, "index", tAnd(app("bvsle", i64(0), i), app("bvslt", i, xv.L)), in, "slice index within bounds")
		et := under(in.X.Type()).(*types.Slice).Elem()
		return e.elemPtr(xv.B, app("bvadd", xv.O, i), et)
	case *PtrV:
		at := under(xv.Elem).(*types.Array)
		if !xv.NonNil {
			e.safe(fr, st, "nil", tNot(tEq(xv.Ref, null)), in, "array pointer is not nil")
		}
		e.safe(fr, st, "index", tAnd(app("bvsle", i64(0), i), app("bvslt", i, i64(at.Len()))), in, "array index within bounds")
		return e.elemPtr(xv.Ref, i, at.Elem())
	}
	panic(unsupportedErr{fmt.Sprintf("IndexAddr on %T", x)})
}

func (e *Eng) index(fr *Frame, st *State, in *ssa.Index) Val {
	x := e.val(fr, in.X)
	i := toI64(in.Index.Type(), e.val(fr, in.Index).(T))
	switch xv := x.(type) {
	case *StrV:
		e.safe(fr, st, "index", tAnd(app("bvsle", i64(0), i), app("bvslt", i, xv.L)), in, "string index within bounds")
		return e.strByte(xv, i)
	case *ArrV:
		at := under(in.X.Type()).(*types.Array)
		e.safe(fr, st, "index", tAnd(app("bvsle", i64(0), i), app("bvslt", i, i64(at.Len()))), in, "array index within bounds")
		v, _ := unflat(at.Elem(), []T{app("select", xv.A, i)})
		return v
	}
	panic(unsupportedErr{fmt.Sprintf("Index on %T", x)})
}

func (e *Eng) slice(fr *Frame, st *State, in *ssa.Slice) Val {
	x := e.val(fr, in.X)
	get := func(v ssa.Value) (T, bool) {
		if v == nil {
			return "", false
		}
		return toI64(v.Type(), e.val(fr, v).(T)), true
	}
	lo, hasLo := get(in.Low)
	hi, hasHi := get(in.High)
	mx, hasMax := get(in.Max)
	if !hasLo {
		lo = i64(0)
	}
	switch xv := x.(type) {
	case *StrV:
		if !hasHi {
			hi = xv.L
		}
		e.safe(fr, st, "slice", tAnd(app("bvsle", i64(0), lo), app("bvsle", lo, hi), app("bvsle", hi, xv.L)), in, "string slice bounds in range")
		if xv.Lit != nil {
			if l, ok := litValue(lo); ok {
				if h, ok := litValue(hi); ok && l <= h && h <= uint64(len(*xv.Lit)) {
					return e.strLit((*xv.Lit)[l:h])
				}
			}
		}
		return &StrV{B: xv.B, O: app("bvadd", xv.O, lo), L: app("bvsub", hi, lo)}
	case *SliceV:
		if !hasHi {
			hi = xv.L
		}
		if !hasMax {
			mx = xv.C
		}
		e.safe(fr, st, "slice", tAnd(app("bvsle", i64(0), lo), app("bvsle", lo, hi), app("bvsle", hi, mx), app("bvsle", mx, xv.C)), in, "slice bounds in range")
		return &SliceV{B: xv.B, O: app("bvadd", xv.O, lo), L: app("bvsub", hi, lo), C: app("bvsub", mx, lo)}
	case *PtrV:
		at := under(xv.Elem).(*types.Array)
		n := i64(at.Len())
		if !hasHi {
			hi = n
		}
		if !hasMax {
			mx = n
		}
		if !xv.NonNil {
			e.safe(fr, st, "nil", tNot(tEq(xv.Ref, null)), in, "array pointer is not nil")
		}
		e.safe(fr, st, "slice", tAnd(app("bvsle", i64(0), lo), app("bvsle", lo, hi), app("bvsle", hi, mx), app("bvsle", mx, n)), in, "slice bounds in range")
		return &SliceV{B: xv.Ref, O: lo, L: app("bvsub", hi, lo), C: app("bvsub", mx, lo)}
	}
	panic(unsupportedErr{fmt.Sprintf("Slice on %T", x)})
}

func (e *Eng) makeSlice(fr *Frame, st *State, in *ssa.MakeSlice) Val {
	l := toI64(in.Len.Type(), e.val(fr, in.Len).(T))
	c := toI64(in.Cap.Type(), e.val(fr, in.Cap).(T))
	e.safe(fr, st, "makeslice", tAnd(app("bvsle", i64(0), l), app("bvsle", l, c)), in, "make: 0 <= len <= cap")
	et := under(in.Type()).(*types.Slice).Elem()
	if e.fc != nil && e.fc.AllocBound != "" && !fr.pure {
		bound := e.evalSpecByName(e.fc.AllocBound, st, e.entry, nil, nil)
		sz := e.w.sizeof(et)
		e.allocBoundSeen = true
		var props []string
		for p := range e.fc.Safe {
			props = append(props, p)
		}
		if len(props) == 0 {
			props = e.allProps()
		}
		e.oblige(st, "alloc_bound", "", props, app("bvsle", app("bvmul", c, i64(sz)), bound.(T)), in, "allocation size is bounded")
	}
	r := e.newRef(fr, st, "slice")
	if !fr.pure {
		for _, cp := range comps(et) {
			name := "E|" + elemKey(et) + cp.suffix
			srt := heapSortFor(idxSorts(2), cp.sort)
			h := e.heapTerm(st, name, srt)
			st.heap[name] = app("store", h, r, zeroTerm(arrSort(sI64, cp.sort)))
			e.modified[name] = true
		}
	}
	return &SliceV{B: r, O: i64(0), L: l, C: c}
}

func (w *World) sizeof(t types.Type) int64 {
	sz := types.SizesFor("gc", "amd64")
	return sz.Sizeof(t)
}

// ---------------------------------------------------------------------------
// maps

func mapKeySort(kt types.Type) (string, bool) {
	cs := comps(kt)
	if len(cs) == 1 {
		return cs[0].sort, true
	}
	if isString(kt) {
		return sI64, true // abstract key identity
	}
	return "", false
}

func (e *Eng) mapKey(kt types.Type, k Val) T {
	if s, ok := k.(*StrV); ok {
		if s.Lit != nil {
			// literal strings: identity by content hash (distinct literals may collide only if equal)
			f := e.q.DeclareFun("strkey", []string{sRef, sI64, sI64}, sI64)
			return app(f, s.B, s.O, s.L)
		}
		f := e.q.DeclareFun("strkey", []string{sRef, sI64, sI64}, sI64)
		return app(f, s.B, s.O, s.L)
	}
	return flat(kt, k)[0]
}

func (e *Eng) mapHeaps(mt *types.Map) (prefix string, ks string, ok bool) {
	ks, ok = mapKeySort(mt.Key())
	prefix = "M|" + elemKey(mt.Key()) + "|" + elemKey(mt.Elem())
	return
}

func (e *Eng) mapInit(st *State, mt *types.Map, r T) {
	prefix, ks, ok := e.mapHeaps(mt)
	if !ok {
		return
	}
	name := prefix + "#present"
	srt := arrSort(sRef, arrSort(ks, sBool))
	h := e.heapTerm(st, name, srt)
	st.heap[name] = app("store", h, r, zeroTerm(arrSort(ks, sBool)))
	e.modified[name] = true
	ln := prefix + "#len"
	hl := e.heapTerm(st, ln, arrSort(sRef, sI64))
	st.heap[ln] = app("store", hl, r, i64(0))
	e.modified[ln] = true
}

func (e *Eng) mapLoad(st *State, mt *types.Map, r, key T) (Val, T) {
	prefix, ks, _ := e.mapHeaps(mt)
	cs := comps(mt.Elem())
	ts := make([]T, len(cs))
	for i, c := range cs {
		h := e.heapTerm(st, prefix+c.suffix, arrSort(sRef, arrSort(ks, c.sort)))
		ts[i] = tSel(h, r, key)
	}
	v, _ := unflat(mt.Elem(), ts)
	hp := e.heapTerm(st, prefix+"#present", arrSort(sRef, arrSort(ks, sBool)))
	return v, tAnd(tNot(tEq(r, null)), tSel(hp, r, key))
}

func (e *Eng) lookup(fr *Frame, st *State, in *ssa.Lookup) Val {
	x := e.val(fr, in.X)
	if s, ok := x.(*StrV); ok {
		i := toI64(in.Index.Type(), e.val(fr, in.Index).(T))
		e.safe(fr, st, "index", tAnd(app("bvsle", i64(0), i), app("bvslt", i, s.L)), in, "string index within bounds")
		return e.strByte(s, i)
	}
	m := x.(*MapV)
	mt := under(in.X.Type()).(*types.Map)
	if _, _, ok := e.mapHeaps(mt); !ok {
		e.note("map with compound key: lookup havoc")
		v := e.freshVal(mt.Elem(), "mapval")
		if in.CommaOk {
			return &TupleV{[]Val{v, e.fresh("mapok", sBool)}}
		}
		return v
	}
	key := e.mapKey(mt.Key(), e.val(fr, in.Index))
	hs := e.heapFor(fr, st, e.taintOf(fr, in.X))
	v, present := e.mapLoad(hs, mt, m.Ref, key)
	v = iteVal(mt.Elem(), present, v, zeroVal(mt.Elem()))
	if !fr.pure {
		e.assume(st, e.wf(mt.Elem(), v))
		e.assumeValAllocated(fr, st, mt.Elem(), v)
	}
	if in.CommaOk {
		return &TupleV{[]Val{v, present}}
	}
	return v
}

func (e *Eng) mapUpdate(fr *Frame, st *State, in *ssa.MapUpdate) {
	m := e.val(fr, in.Map).(*MapV)
	mt := under(in.Map.Type()).(*types.Map)
	e.safe(fr, st, "nilmap", tNot(tEq(m.Ref, null)), in, "assignment to entry in non-nil map")
	prefix, ks, ok := e.mapHeaps(mt)
	if !ok {
		e.note("map with compound key: update ignored (values havoc on lookup)")
		return
	}
	key := e.mapKey(mt.Key(), e.val(fr, in.Key))
	e.checkFrameMap(fr, st, m, in)
	cs := comps(mt.Elem())
	ts := flat(mt.Elem(), e.val(fr, in.Value))
	for i, c := range cs {
		name := prefix + c.suffix
		h := e.heapTerm(st, name, arrSort(sRef, arrSort(ks, c.sort)))
		st.heap[name] = tSto(h, []T{m.Ref, key}, ts[i])
		e.modified[name] = true
	}
	name := prefix + "#present"
	h := e.heapTerm(st, name, arrSort(sRef, arrSort(ks, sBool)))
	st.heap[name] = tSto(h, []T{m.Ref, key}, "true")
	e.modified[name] = true
	ln := prefix + "#len"
	hl := e.heapTerm(st, ln, arrSort(sRef, sI64))
	nl := e.fresh("maplen", sI64)
	e.assume(st, tAnd(app("bvsle", i64(1), nl), app("bvsle", nl, i64(maxLen))))
	st.heap[ln] = app("store", hl, m.Ref, nl)
	e.modified[ln] = true
}

func (e *Eng) next(fr *Frame, st *State, in *ssa.Next) Val {
	tup := in.Type().(*types.Tuple)
	ok := e.fresh("next_ok", sBool)
	tv := &TupleV{Elems: []Val{ok}}
	if in.IsString {
		idx := e.fresh("next_idx", sI64)
		r := e.fresh("next_rune", bvSort(32))
		tv.Elems = append(tv.Elems, idx, r)
		if s, isStr := e.val(fr, in.Iter).(*StrV); isStr {
			e.assume(st, tImp(ok, tAnd(app("bvsle", i64(0), idx), app("bvslt", idx, s.L))))
			// ASCII bytes decode to themselves
			e.assume(st, tImp(tAnd(ok, app("bvult", e.strByte(s, idx), bvLit(8, 128))), tEq(r, fmt.Sprintf("((_ zero_extend 24) %s)", e.strByte(s, idx)))))
		}
		e.note("range over string: iteration order abstracted (each step yields some valid index)")
		return tv
	}
	kt, vt := tup.At(1).Type(), tup.At(2).Type()
	k := e.freshVal(kt, "next_key")
	var v Val
	if m, isMap := e.val(fr, in.Iter).(*MapV); isMap {
		// find the map type from the Range instruction
		if rg, ok2 := in.Iter.(*ssa.Range); ok2 {
			mt := under(rg.X.Type()).(*types.Map)
			if _, _, ok3 := e.mapHeaps(mt); ok3 {
				key := e.mapKey(mt.Key(), k)
				lv, present := e.mapLoad(st, mt, m.Ref, key)
				e.assume(st, tImp(ok, present))
				v = lv
			}
		}
	}
	if v == nil {
		v = e.freshVal(vt, "next_val")
	}
	e.assume(st, e.wf(kt, k))
	e.assume(st, e.wf(vt, v))
	e.assumeValAllocated(fr, st, vt, v)
	tv.Elems = append(tv.Elems, k, v)
	e.note("range over map: iteration order abstracted")
	return tv
}


// chanCount adds 1 to a per-channel ghost counter when cond holds.
func (e *Eng) chanCount(st *State, name string, ch T, cond T) {
	h := e.heapTerm(st, name, arrSort(sRef, sI64))
	cur := app("select", h, ch)
	st.heap[name] = app("store", h, ch, tIte(cond, app("bvadd", cur, i64(1)), cur))
	e.modified[name] = true
}


// refsOf lists the object references directly contained in a value.
func refsOf(v Val) []T {
	switch x := v.(type) {
	case *PtrV:
		if x.Kind != pLocal && x.Kind != pGlobal {
			return []T{x.Ref}
		}
	case *SliceV:
		return []T{x.B}
	case *MapV:
		return []T{x.Ref}
	case *IfaceV:
		return []T{x.V}
	case *StructV:
		var out []T
		for _, f := range x.Fields {
			out = append(out, refsOf(f)...)
		}
		return out
	}
	return nil
}


// loopCaptureCheck: a closure made inside a loop that outlives the iteration (started with `go`, deferred,
// stored or passed on) must not capture by reference a variable that the loop assigns again: with the
// per-loop variables of this module's Go version (go.mod: go 1.14) every such closure would observe the
// values of later iterations.  Zero-annotation obligation `capture.loopvar` of every function under contract.
func (e *Eng) loopCaptureCheck(fr *Frame, st *State, mc *ssa.MakeClosure) {
	if fr.pure || fr.fn != e.fn || e.fc == nil || e.collect {
		return
	}
	blk := mc.Block()
	var inner *loopInfo
	for _, li := range e.loopList {
		if li.body[blk] || li.header == blk {
			if inner == nil || len(li.body) < len(inner.body) {
				inner = li
			}
		}
	}
	if inner == nil {
		return
	}
	// called on the spot in the same block (func(){...}()) and nowhere else: the iteration still owns the variable
	immediate := true
	if refs := mc.Referrers(); refs != nil {
		for _, r := range *refs {
			switch x := r.(type) {
			case *ssa.Call:
				if x.Call.Value != ssa.Value(mc) {
					immediate = false
				}
			case *ssa.DebugRef:
			default:
				immediate = false
			}
		}
	}
	if immediate {
		return
	}
	fn := mc.Fn.(*ssa.Function)
	for i, b := range mc.Bindings {
		a, ok := b.(*ssa.Alloc)
		if !ok || inner.body[a.Block()] || a.Block() == inner.header {
			continue // allocated per iteration
		}
		storedInLoopBody := false
		if refs := a.Referrers(); refs != nil {
			for _, r := range *refs {
				if s, ok := r.(*ssa.Store); ok && s.Addr == ssa.Value(a) && (inner.body[s.Block()] || s.Block() == inner.header) {
					storedInLoopBody = true
				}
			}
		}
		if !storedInLoopBody {
			continue
		}
		name := a.Comment
		if i < len(fn.FreeVars) {
			name = fn.FreeVars[i].Name()
		}
		e.oblige(st, "capture.loopvar", name, e.allProps(), "false", mc, "the closure outlives the iteration but captures by reference the variable "+name+", which the loop assigns again (later iterations overwrite what the closure sees)")
	}
}
