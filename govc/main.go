package main

import (
	"flag"
	"fmt"
	"os"
)

func main() {
	if len(os.Args) < 2 {
		fmt.Fprintln(os.Stderr, "usage: govc check <property> [flags] | govc list | govc fn <pattern>")
		os.Exit(2)
	}
	switch os.Args[1] {
	case "check":
		fs := flag.NewFlagSet("check", flag.ExitOnError)
		tier := fs.String("tier", "quick", "quick|thorough")
		repo := fs.String("repo", "/repo", "repository root")
		verif := fs.String("verif", "/verif", "verif root")
		only := fs.String("only", "", "only functions whose display name contains this")
		updateBaseline := fs.Bool("update-baseline", false, "rewrite baseline for this property")
		fs.Parse(os.Args[3:])
		os.Exit(runCheck(os.Args[2], *tier, *repo, *verif, *only, *updateBaseline))
	case "replay":
		// govc replay <property> <replay-file>: re-decide the recorded obligation on /repo's current tree
		if len(os.Args) < 4 {
			fmt.Fprintln(os.Stderr, "usage: govc replay <property> <replay.json>")
			os.Exit(2)
		}
		os.Exit(runReplayFile(os.Args[2], os.Args[3]))
	default:
		fmt.Fprintln(os.Stderr, "unknown command")
		os.Exit(2)
	}
}
