package main

// Contract files: comment-only Go files named zz_verif_contracts.go (build tag
// verif) inside /repo packages, plus /verif/trusted/*.spec for external
// functions.  Every contract line starts with "//@".  See DESIGN.md §3.

import (
	"bufio"
	"fmt"
	"go/ast"
	"go/parser"
	"go/token"
	"os"
	"path/filepath"
	"regexp"
	"strconv"
	"strings"
)

type Clause struct {
	Kind     string // requires ensures invariant decreases assume
	Expr     string // source text (contract syntax)
	Label    string
	Property string
	Loop     int    // loop ordinal for invariant/decreases
	Line     int    // line in contract file
	SpecFn   string // generated spec function name
	Reason   string // for assume
}

type LoopSpec struct {
	N          int
	Vars       []VarDecl // extra local variables visible in invariants
	Invariants []*Clause
	Decreases  *Clause
	Holds      []string // ghost tokens held in the loop body
	Modifies   []string
	ModSpecs   []*ModSpec
	HasMod     bool
}

type VarDecl struct{ Name, Type string }

// ModSpec is one entry of a modifies clause.
type ModSpec struct {
	Kind   string // all field elems ghost ghost0 deref global
	Name   string // field / ghost / global name
	Text   string
	Expr   string // object expression
	SpecFn string
}

type FuncContract struct {
	Key           string // "Recv.Name" or "Name"; closures "Name$1"
	RecvName      string
	FuncName      string
	File          string
	Line          int
	Properties    map[string]bool
	Requires      []*Clause
	Ensures       []*Clause
	Assumes       []*Clause
	Modifies      []string
	ModSpecs      []*ModSpec
	HasMod        bool // a modifies clause (possibly empty via "pure") was given
	Pure          bool
	Safe          map[string]bool // properties for which safety obligations are generated
	Trusted       string          // reason; body not verified
	Loops         map[int]*LoopSpec
	Extern        bool   // external (trusted) function; Sig gives the signature
	Sig           string // for extern / iface: explicit signature text "(recv T) Name(params) (results)"
	Iface         bool   // contract of an interface method
	AllocBound    string // max bytes for make() in this function (expression)
	NoPanic       bool
	Holds         []string // tokens that the whole function body holds
	Spawned       bool     // function is only ever started with `go` (informational)
	Terminates    map[string]bool
	Defaults      string
	Aliases       []string
	Sites         []*SiteSpec
	FreeVars      []VarDecl // (closures) captured variables visible in the contract, by name
	Implements    []string  // keys of interface-method contracts this method must refine
	Deterministic bool      // (extern functions) results are functions of the argument values only
	MustUse       [][2]string // (result name, reason): results a caller must not discard
	NoCalls       []*Clause   // Expr = callee name (suffix match): calls this function must not make
	Blocks        string      // non-empty: the function waits for a peer (reason)
	StoresOnly    bool        // the modifies clause constrains the function's own stores only
	Dead          bool      // target does not exist (reported as unresolved)
	Stable        bool      // (interface / extern methods) the single result is a function of the receiver identity only
}

// SiteSpec: an assumption or assertion attached to the n-th call (in source order) of a callee.
//
//	callsite <callee>#<n> (<name type>, ...) assume <expr> "reason"
//	callsite <callee>#<n> (<name type>, ...) assert <expr> :label
type SiteSpec struct {
	Callee string
	N      int
	Vars   []VarDecl // names for the call's results
	Kind   string    // assume | assert
	Clause *Clause
}

type GhostDecl struct {
	Name   string // G_xxx
	Params string // "(x interface{})" or "()"
	Result string // Go type
	Line   int
}

type PredDecl struct {
	Name   string
	Params string
	Body   string
	Line   int
}

type ContractFile struct {
	Path          string
	PkgDir        string
	Imports       []string // extra import lines for generated spec file: `alias "path"`
	Ghosts        []*GhostDecl
	Preds         []*PredDecl
	Funcs         []*FuncContract
	GoDecls       []string
	NonNilDynamic []string  // interface types whose dynamic values are never typed-nil pointers (trusted data invariant)
	PkgInvs       []*Clause // invariants over package-level variables: established by init, never written afterwards
	Consts        []*Clause // closed obligations over package-level constants
	Lemmas        []*Clause
	Immutables    []*Clause // Type.field: written only while the enclosing object is being constructed (module-wide scan)
}

var clauseKeywords = map[string]bool{
	"property": true, "requires": true, "ensures": true, "modifies": true, "pure": true,
	"safe": true, "loop": true, "assume": true, "trusted": true, "alloc_bound": true,
	"holds": true, "spawned": true, "terminates": true, "alias": true, "callsite": true, "stable": true, "freevars": true, "deterministic": true, "implements": true, "mustuse": true, "nocall": true, "blocks": true, "ownstores": true,
}

var labelRe = regexp.MustCompile(`\s:([A-Za-z_][A-Za-z0-9_]*)\s*$`)

func splitLabel(s string) (string, string) {
	if m := labelRe.FindStringSubmatchIndex(s); m != nil {
		return strings.TrimSpace(s[:m[0]]), s[m[2]:m[3]]
	}
	return strings.TrimSpace(s), ""
}

func ParseContractFile(path string) (*ContractFile, error) {
	raw, err := os.ReadFile(path)
	if err != nil {
		return nil, err
	}
	// Specification helpers (pred / go func) live in the package's scope in the generated overlay file.
	// A helper whose name the package itself declares (today or after an edit) is renamed on the fly, so
	// that adding a function called like a helper is not reported as a contract error.
	text := renameCollidingHelpers(string(raw), filepath.Dir(path))
	cf := &ContractFile{Path: path}
	sc := bufio.NewScanner(strings.NewReader(text))
	sc.Buffer(make([]byte, 1<<20), 1<<20)
	var cur *FuncContract
	curProp := ""
	var lastExpr *string // continuation target
	lastIsGo := false
	ln := 0
	for sc.Scan() {
		ln++
		line := sc.Text()
		t := strings.TrimSpace(line)
		var body string
		if strings.HasPrefix(t, "//@") {
			body = strings.TrimPrefix(t, "//@")
		} else if strings.HasPrefix(t, "// @") {
			body = strings.TrimPrefix(t, "// @")
		} else {
			continue
		}
		// strip trailing line comment " // ..." (only when preceded by space)
		if i := strings.Index(body, " // "); i >= 0 {
			body = body[:i]
		}
		b := strings.TrimSpace(body)
		if b == "" {
			continue
		}
		word := b
		rest := ""
		if i := strings.IndexAny(b, " \t"); i >= 0 {
			word, rest = b[:i], strings.TrimSpace(b[i+1:])
		}
		// inside a Go helper an indented line is Go source, whatever its first word (go func() {...}(), const ...)
		if indent := len(body) - len(strings.TrimLeft(body, " \t")); lastIsGo && indent >= 2 && lastExpr != nil {
			*lastExpr = *lastExpr + "\n" + b
			continue
		}
		if word != "go" && (clauseKeywords[word] || word == "import" || word == "ghost" || word == "pred" || word == "const" || word == "lemma" || word == "pkginv" || word == "fact" || word == "immutable" || word == "func" || word == "extern" || word == "iface") {
			// a "go" block continues until the next keyword line; "case"/"return"/"switch"/"}" lines are not keywords
			lastIsGo = false
		}
		switch word {
		case "nonnil-dynamic":
			cf.NonNilDynamic = append(cf.NonNilDynamic, strings.Fields(rest)...)
			lastExpr = nil
			continue
		case "import":
			cf.Imports = append(cf.Imports, rest)
			lastExpr = nil
			continue
		case "ghost":
			// ghost G_name(params) type
			i := strings.Index(rest, "(")
			j := matchParen(rest, i)
			if i < 0 || j < 0 {
				return nil, fmt.Errorf("%s:%d: bad ghost decl", path, ln)
			}
			cf.Ghosts = append(cf.Ghosts, &GhostDecl{Name: strings.TrimSpace(rest[:i]), Params: rest[i : j+1], Result: strings.TrimSpace(rest[j+1:]), Line: ln})
			lastExpr = nil
			continue
		case "pred":
			i := strings.Index(rest, "(")
			j := matchParen(rest, i)
			k := strings.Index(rest, ":=")
			if i < 0 || j < 0 || k < 0 {
				return nil, fmt.Errorf("%s:%d: bad pred decl", path, ln)
			}
			p := &PredDecl{Name: strings.TrimSpace(rest[:i]), Params: rest[i : j+1], Body: strings.TrimSpace(rest[k+2:]), Line: ln}
			cf.Preds = append(cf.Preds, p)
			lastExpr = &p.Body
			cur = nil
			continue
		case "go":
			cf.GoDecls = append(cf.GoDecls, rest)
			lastExpr = &cf.GoDecls[len(cf.GoDecls)-1]
			lastIsGo = true
			cur = nil
			continue
		case "immutable":
			c := &Clause{Kind: word, Expr: strings.TrimSpace(rest), Label: strings.TrimSpace(rest), Property: curProp, Line: ln}
			cf.Immutables = append(cf.Immutables, c)
			lastExpr = nil
			continue
		case "const", "lemma", "pkginv", "fact":
			e, lab := splitLabel(rest)
			c := &Clause{Kind: word, Expr: e, Label: lab, Property: curProp, Line: ln}
			if word == "const" {
				cf.Consts = append(cf.Consts, c)
			} else if word == "pkginv" || word == "fact" {
				// a fact is a package invariant without free variables whose initial truth is established by
				// evaluating the real code (go test) rather than by the solver: regular expressions, tables
				cf.PkgInvs = append(cf.PkgInvs, c)
			} else {
				cf.Lemmas = append(cf.Lemmas, c)
			}
			lastExpr = &c.Expr
			continue
		case "func", "extern", "iface":
			fc := &FuncContract{File: path, Line: ln, Properties: map[string]bool{}, Safe: map[string]bool{}, Loops: map[int]*LoopSpec{}, Terminates: map[string]bool{}}
			sig := rest
			if word == "extern" || word == "iface" {
				fc.Extern = word == "extern"
				fc.Iface = word == "iface"
				// <key> <space> (params incl. receiver first) (results)
				i := strings.IndexAny(rest, " \t")
				if i < 0 {
					return nil, fmt.Errorf("%s:%d: bad %s declaration", path, ln, word)
				}
				fc.Key = rest[:i]
				fc.Sig = strings.TrimSpace(rest[i+1:])
			} else {
				if strings.HasPrefix(sig, "(") {
					j := matchParen(sig, 0)
					recv := sig[1:j]
					fs := strings.Fields(recv)
					rt := fs[len(fs)-1]
					rt = strings.TrimPrefix(rt, "*")
					fc.RecvName = rt
					fc.FuncName = strings.TrimSpace(sig[j+1:])
					fc.Key = rt + "." + fc.FuncName
				} else {
					fc.FuncName = sig
					fc.Key = sig
				}
			}
			if curProp != "" {
				// property does not carry over between functions
			}
			curProp = ""
			cf.Funcs = append(cf.Funcs, fc)
			cur = fc
			lastExpr = nil
			continue
		}
		if !clauseKeywords[word] {
			// continuation of previous expression
			if lastExpr == nil {
				return nil, fmt.Errorf("%s:%d: unexpected contract line %q", path, ln, b)
			}
			if lastIsGo {
				*lastExpr = *lastExpr + "\n" + b
			} else {
				*lastExpr = *lastExpr + " " + b
			}
			continue
		}
		if word == "property" && cur == nil {
			curProp = rest
			lastExpr = nil
			continue
		}
		if cur == nil {
			return nil, fmt.Errorf("%s:%d: clause outside function contract", path, ln)
		}
		lastExpr = nil
		switch word {
		case "property":
			curProp = rest
			for _, p := range strings.Fields(strings.ReplaceAll(rest, ",", " ")) {
				cur.Properties[p] = true
			}
		case "requires", "ensures":
			e, lab := splitLabel(rest)
			c := &Clause{Kind: word, Expr: e, Label: lab, Property: curProp, Line: ln}
			if word == "requires" {
				cur.Requires = append(cur.Requires, c)
			} else {
				cur.Ensures = append(cur.Ensures, c)
			}
			lastExpr = &c.Expr
		case "assume":
			e, _ := splitLabel(rest)
			reason := ""
			if i := strings.Index(e, `"`); i >= 0 {
				reason = strings.Trim(e[i:], `"`)
				e = strings.TrimSpace(e[:i])
			}
			c := &Clause{Kind: "assume", Expr: e, Reason: reason, Property: curProp, Line: ln}
			cur.Assumes = append(cur.Assumes, c)
		case "modifies":
			cur.HasMod = true
			for _, m := range splitTop(rest, ',') {
				m = strings.TrimSpace(m)
				if m != "" {
					cur.Modifies = append(cur.Modifies, m)
				}
			}
		case "pure":
			cur.HasMod = true
			cur.Pure = true
		case "safe":
			for _, p := range strings.Fields(strings.ReplaceAll(curProp, ",", " ")) {
				cur.Safe[p] = true
			}
			if rest == "nopanic" {
				cur.NoPanic = true
			}
		case "terminates":
			for _, p := range strings.Fields(strings.ReplaceAll(curProp, ",", " ")) {
				cur.Terminates[p] = true
			}
		case "trusted":
			cur.Trusted = strings.Trim(rest, `"`)
			if cur.Trusted == "" {
				cur.Trusted = "(no reason given)"
			}
		case "alloc_bound":
			cur.AllocBound = rest
		case "holds":
			cur.Holds = append(cur.Holds, strings.Fields(rest)...)
		case "freevars":
			for _, v := range splitTop(rest, ',') {
				v = strings.TrimSpace(v)
				if v == "" {
					continue
				}
				k := strings.IndexAny(v, " \t")
				cur.FreeVars = append(cur.FreeVars, VarDecl{v[:k], strings.TrimSpace(v[k+1:])})
			}
		case "implements":
			cur.Implements = append(cur.Implements, strings.Fields(rest)...)
		case "deterministic":
			cur.Deterministic = true
			cur.HasMod = true
			cur.Pure = true
		case "nocall":
			// nocall <callee> :label  -- this function (its closures included) never calls the named function
			e0, lab := splitLabel(rest)
			cur.NoCalls = append(cur.NoCalls, &Clause{Kind: "nocall", Expr: strings.TrimSpace(e0), Label: lab, Property: curProp, Line: ln})
		case "ownstores":
			// the modifies clause of this function is a frame for ITS OWN stores only: calls are not checked against it
			// and callers do not rely on it (for functions whose callees are not all under contract)
			cur.StoresOnly = true
		case "blocks":
			// blocks "why": the call waits for a peer (network read / write / handshake); callers must not hold a
			// package-level lock across it
			cur.Blocks = strings.Trim(strings.TrimSpace(rest), `"`)
			if cur.Blocks == "" {
				cur.Blocks = "waits for the peer"
			}
		case "mustuse":
			// mustuse <result name> "reason": a caller that discards this result breaks the callee's protocol
			nm, reason := rest, ""
			if q := strings.Index(rest, `"`); q >= 0 {
				nm, reason = strings.TrimSpace(rest[:q]), strings.Trim(rest[q:], `"`)
			}
			cur.MustUse = append(cur.MustUse, [2]string{nm, reason})
		case "stable":
			cur.Stable = true
			cur.HasMod = true
			cur.Pure = true
		case "spawned":
			cur.Spawned = true
		case "alias":
			cur.Aliases = append(cur.Aliases, strings.Fields(rest)...)
		case "callsite":
			// <callee>#<n> (vars) assume|assert expr
			i := strings.Index(rest, " ")
			if i < 0 {
				return nil, fmt.Errorf("%s:%d: bad callsite clause", path, ln)
			}
			head, tail := rest[:i], strings.TrimSpace(rest[i+1:])
			h := strings.LastIndex(head, "#")
			if h < 0 || !strings.HasPrefix(tail, "(") {
				return nil, fmt.Errorf("%s:%d: bad callsite clause", path, ln)
			}
			n, err := strconv.Atoi(head[h+1:])
			if err != nil {
				return nil, fmt.Errorf("%s:%d: bad callsite ordinal", path, ln)
			}
			j := matchParen(tail, 0)
			ss := &SiteSpec{Callee: head[:h], N: n}
			for _, v := range splitTop(tail[1:j], ',') {
				v = strings.TrimSpace(v)
				if v == "" {
					continue
				}
				k := strings.IndexAny(v, " \t")
				ss.Vars = append(ss.Vars, VarDecl{v[:k], strings.TrimSpace(v[k+1:])})
			}
			body := strings.TrimSpace(tail[j+1:])
			k := strings.Index(body, " ")
			ss.Kind = body[:k]
			e, lab := splitLabel(strings.TrimSpace(body[k+1:]))
			reason := ""
			if ss.Kind == "assume" {
				if q := strings.Index(e, `"`); q >= 0 {
					reason = strings.Trim(e[q:], `"`)
					e = strings.TrimSpace(e[:q])
				}
			}
			ss.Clause = &Clause{Kind: "site" + ss.Kind, Expr: e, Label: lab, Reason: reason, Property: curProp, Line: ln}
			cur.Sites = append(cur.Sites, ss)
			lastExpr = &ss.Clause.Expr
		case "loop":
			fs := strings.SplitN(rest, " ", 3)
			if len(fs) < 2 {
				return nil, fmt.Errorf("%s:%d: bad loop clause", path, ln)
			}
			n, err := strconv.Atoi(fs[0])
			if err != nil {
				return nil, fmt.Errorf("%s:%d: bad loop ordinal", path, ln)
			}
			ls := cur.Loops[n]
			if ls == nil {
				ls = &LoopSpec{N: n}
				cur.Loops[n] = ls
			}
			arg := ""
			if len(fs) == 3 {
				arg = strings.TrimSpace(fs[2])
			}
			switch fs[1] {
			case "invariant":
				e, lab := splitLabel(arg)
				c := &Clause{Kind: "invariant", Expr: e, Label: lab, Property: curProp, Loop: n, Line: ln}
				ls.Invariants = append(ls.Invariants, c)
				lastExpr = &c.Expr
			case "decreases":
				e, lab := splitLabel(arg)
				c := &Clause{Kind: "decreases", Expr: e, Label: lab, Property: curProp, Loop: n, Line: ln}
				ls.Decreases = c
				lastExpr = &c.Expr
			case "vars":
				for _, v := range splitTop(arg, ',') {
					v = strings.TrimSpace(v)
					i := strings.IndexAny(v, " \t")
					if i < 0 {
						return nil, fmt.Errorf("%s:%d: bad vars clause", path, ln)
					}
					ls.Vars = append(ls.Vars, VarDecl{v[:i], strings.TrimSpace(v[i+1:])})
				}
			case "holds":
				ls.Holds = append(ls.Holds, strings.Fields(arg)...)
			case "modifies":
				ls.HasMod = true
				for _, m := range splitTop(arg, ',') {
					m = strings.TrimSpace(m)
					if m != "" {
						ls.Modifies = append(ls.Modifies, m)
					}
				}
			default:
				return nil, fmt.Errorf("%s:%d: unknown loop clause %q", path, ln, fs[1])
			}
		}
	}
	return cf, sc.Err()
}

func matchParen(s string, i int) int {
	if i < 0 || i >= len(s) {
		return -1
	}
	open := s[i]
	var cl byte
	switch open {
	case '(':
		cl = ')'
	case '[':
		cl = ']'
	case '{':
		cl = '}'
	default:
		return -1
	}
	d := 0
	inStr := byte(0)
	for j := i; j < len(s); j++ {
		c := s[j]
		if inStr != 0 {
			if c == '\\' {
				j++
			} else if c == inStr {
				inStr = 0
			}
			continue
		}
		if c == '"' || c == '\'' || c == '`' {
			inStr = c
			continue
		}
		if c == open {
			d++
		} else if c == cl {
			d--
			if d == 0 {
				return j
			}
		}
	}
	return -1
}

// splitTop splits s on sep at nesting depth 0.
func splitTop(s string, sep byte) []string {
	var out []string
	d := 0
	inStr := byte(0)
	last := 0
	for j := 0; j < len(s); j++ {
		c := s[j]
		if inStr != 0 {
			if c == '\\' {
				j++
			} else if c == inStr {
				inStr = 0
			}
			continue
		}
		switch c {
		case '"', '\'', '`':
			inStr = c
		case '(', '[', '{':
			d++
		case ')', ']', '}':
			d--
		default:
			if c == sep && d == 0 {
				out = append(out, s[last:j])
				last = j + 1
			}
		}
	}
	out = append(out, s[last:])
	return out
}

// ---------------------------------------------------------------------------
// Expression preprocessing: contract syntax -> Go expression text.
//
//   A ==> B            spec_imp(A, B)        (lowest precedence, right assoc.)
//   A <==> B           ((A) == (B))
//   forall i [T] :: P  spec_forall_T(func(i T) bool { return P })
//   exists i [T] :: P  spec_exists_T(func(i T) bool { return P })
//   old(E)             (E with every parameter p renamed old_p)
//
// The result is parsed and type-checked by go/types as part of the package,
// so field names, constants, conversions and methods are resolved by Go itself.

type quantUse struct{ Kind, Type string }

type exprCtx struct {
	params map[string]bool     // names that get an old_ twin
	quants map[string]quantUse // stub name -> use
}

func sanitizeType(t string) string {
	r := strings.NewReplacer("*", "P", ".", "_", "[", "L", "]", "R", " ", "", "{", "", "}", "")
	return r.Replace(t)
}

func (c *exprCtx) conv(s string) (string, error) {
	s = strings.TrimSpace(s)
	// 1. quantifier at the head
	for _, q := range []string{"forall", "exists"} {
		if strings.HasPrefix(s, q+" ") {
			k := strings.Index(s, "::")
			if k < 0 {
				return "", fmt.Errorf("quantifier without '::' in %q", s)
			}
			decl := strings.Fields(strings.TrimSpace(s[len(q):k]))
			typ := "int"
			var names []string
			for _, d := range decl {
				d = strings.TrimSuffix(d, ",")
				if d == "" {
					continue
				}
				names = append(names, d)
			}
			// last token is a type if it is a known type-ish word and there are >= 2 tokens
			if len(names) >= 2 && isTypeWord(names[len(names)-1]) {
				typ = names[len(names)-1]
				names = names[:len(names)-1]
			}
			body, err := c.conv(s[k+2:])
			if err != nil {
				return "", err
			}
			// nest one quantifier per variable
			for i := len(names) - 1; i >= 0; i-- {
				stub := "spec_" + q + "_" + sanitizeType(typ)
				c.quants[stub] = quantUse{q, typ}
				body = fmt.Sprintf("%s(func(%s %s) bool { return %s })", stub, names[i], typ, body)
			}
			return body, nil
		}
	}
	// 2. top-level ==> (right assoc., lowest precedence)
	if i := findTop(s, "==>"); i >= 0 {
		// make sure it is not part of <==>
		if !(i > 0 && s[i-1] == '<') {
			a, err := c.conv(s[:i])
			if err != nil {
				return "", err
			}
			b, err := c.conv(s[i+3:])
			if err != nil {
				return "", err
			}
			return "spec_imp(" + a + ", " + b + ")", nil
		}
	}
	if i := findTop(s, "<==>"); i >= 0 {
		a, err := c.conv(s[:i])
		if err != nil {
			return "", err
		}
		b, err := c.conv(s[i+4:])
		if err != nil {
			return "", err
		}
		return "((" + a + ") == (" + b + "))", nil
	}
	// 3. top-level && and || : split so that nested quantifiers / implications inside
	// parenthesised operands are handled.
	// General approach: walk the string; for each parenthesised group recurse.
	var out strings.Builder
	for j := 0; j < len(s); {
		ch := s[j]
		switch {
		case ch == '"' || ch == '\'' || ch == '`':
			e := skipString(s, j)
			out.WriteString(s[j:e])
			j = e
		case ch == '(':
			e := matchParen(s, j)
			if e < 0 {
				return "", fmt.Errorf("unbalanced parentheses in %q", s)
			}
			// is this old( ... ) ?
			pre := out.String()
			if strings.HasSuffix(pre, "old") && (len(pre) == 3 || !isIdentChar(pre[len(pre)-4])) {
				inner, err := c.conv(s[j+1 : e])
				if err != nil {
					return "", err
				}
				renamed := c.renameOld(inner)
				// a ghost without arguments carries no parameter to mark: its twin reads the entry state
				renamed2 := ghost0Re.ReplaceAllString(renamed, "${1}__old()")
				if renamed2 == inner {
					return "", fmt.Errorf("old(%s) mentions no parameter and no ghost: it would be read in the final state", inner)
				}
				renamed = renamed2
				out.Reset()
				out.WriteString(pre[:len(pre)-3])
				out.WriteString("(" + renamed + ")")
			} else {
				// function-call argument lists: convert each top-level comma part
				parts := splitTop(s[j+1:e], ',')
				out.WriteString("(")
				for pi, p := range parts {
					if pi > 0 {
						out.WriteString(",")
					}
					if strings.TrimSpace(p) == "" {
						continue
					}
					cp, err := c.conv(p)
					if err != nil {
						return "", err
					}
					out.WriteString(cp)
				}
				out.WriteString(")")
			}
			j = e + 1
		default:
			out.WriteByte(ch)
			j++
		}
	}
	return out.String(), nil
}

func isTypeWord(w string) bool {
	switch w {
	case "int", "uint", "uint8", "uint16", "uint32", "uint64", "int8", "int16", "int32", "int64", "byte", "bool", "string":
		return true
	}
	return strings.HasPrefix(w, "*") || strings.Contains(w, ".")
}

func isIdentChar(b byte) bool {
	return b == '_' || b >= '0' && b <= '9' || b >= 'a' && b <= 'z' || b >= 'A' && b <= 'Z'
}

func skipString(s string, j int) int {
	q := s[j]
	for k := j + 1; k < len(s); k++ {
		if s[k] == '\\' && q != '`' {
			k++
			continue
		}
		if s[k] == q {
			return k + 1
		}
	}
	return len(s)
}

// findTop returns the index of the first occurrence of op at paren depth 0
// (and outside string literals), or -1.
func findTop(s, op string) int {
	d := 0
	for j := 0; j < len(s); j++ {
		c := s[j]
		switch c {
		case '"', '\'', '`':
			j = skipString(s, j) - 1
			continue
		case '(', '[', '{':
			d++
		case ')', ']', '}':
			d--
		}
		if d == 0 && strings.HasPrefix(s[j:], op) {
			if op == "==>" && j > 0 && s[j-1] == '<' {
				continue
			}
			return j
		}
	}
	return -1
}

var ghost0Re = regexp.MustCompile(`\b(G_[A-Za-z0-9_]+)\(\s*\)`)

// renameOld renames parameter identifiers to old_<p> (not after '.', not part of a longer identifier).
func (c *exprCtx) renameOld(s string) string {
	var out strings.Builder
	for j := 0; j < len(s); {
		ch := s[j]
		if ch == '"' || ch == '\'' || ch == '`' {
			e := skipString(s, j)
			out.WriteString(s[j:e])
			j = e
			continue
		}
		if isIdentChar(ch) && !(ch >= '0' && ch <= '9') {
			e := j
			for e < len(s) && isIdentChar(s[e]) {
				e++
			}
			id := s[j:e]
			prevDot := false
			for k := j - 1; k >= 0; k-- {
				if s[k] == ' ' {
					continue
				}
				prevDot = s[k] == '.'
				break
			}
			if c.params[id] && !prevDot {
				out.WriteString("old_" + id)
			} else {
				out.WriteString(id)
			}
			j = e
			continue
		}
		if ch >= '0' && ch <= '9' {
			e := j
			for e < len(s) && (isIdentChar(s[e]) || s[e] == '.') {
				e++
			}
			out.WriteString(s[j:e])
			j = e
			continue
		}
		out.WriteByte(ch)
		j++
	}
	return out.String()
}

var helperDeclRe = regexp.MustCompile(`(?m)^\s*//\s?@\s*(?:pred|go\s+func)\s+([A-Za-z_][A-Za-z0-9_]*)\s*\(`)

func renameCollidingHelpers(text, dir string) string {
	ms := helperDeclRe.FindAllStringSubmatch(text, -1)
	if len(ms) == 0 {
		return text
	}
	declared := packageIdents(dir)
	for _, m := range ms {
		name := m[1]
		if !declared[name] {
			continue
		}
		re := regexp.MustCompile(`\b` + regexp.QuoteMeta(name) + `\b`)
		lines := strings.Split(text, "\n")
		for i, l := range lines {
			t := strings.TrimSpace(l)
			if strings.HasPrefix(t, "//@") || strings.HasPrefix(t, "// @") {
				lines[i] = re.ReplaceAllString(l, name+"__spec")
			}
		}
		text = strings.Join(lines, "\n")
	}
	return text
}

// packageIdents: the package-level identifiers declared by the non-test Go files of a directory (parsed
// leniently; the contract file itself declares nothing).
func packageIdents(dir string) map[string]bool {
	out := map[string]bool{}
	ents, err := os.ReadDir(dir)
	if err != nil {
		return out
	}
	fset := token.NewFileSet()
	for _, e := range ents {
		n := e.Name()
		if e.IsDir() || !strings.HasSuffix(n, ".go") || strings.HasSuffix(n, "_test.go") || n == contractFileName {
			continue
		}
		f, err := parser.ParseFile(fset, filepath.Join(dir, n), nil, parser.SkipObjectResolution)
		if err != nil || f == nil {
			continue
		}
		for _, d := range f.Decls {
			switch x := d.(type) {
			case *ast.FuncDecl:
				if x.Recv == nil {
					out[x.Name.Name] = true
				}
			case *ast.GenDecl:
				for _, sp := range x.Specs {
					switch y := sp.(type) {
					case *ast.TypeSpec:
						out[y.Name.Name] = true
					case *ast.ValueSpec:
						for _, id := range y.Names {
							out[id.Name] = true
						}
					}
				}
			}
		}
	}
	return out
}
